"""Contracts on mypy/errors.py (C13 suppression predicates and bookkeeping, C14 end >= start,
C20 exception freedom of the reporting kernel)."""
from __future__ import annotations

import z3

from pyvc.interp import NONE, PyExc
from pyvc.sym import *
from pyvc.target import Target
from pyvc.types import *
from pyvc.interp import LoopSpec
from .common import *

import mypy.errors as E
import mypy.errorcodes as EC
from mypy.options import Options
from mypy.scope import Scope

ErrorInfo, Errors, ErrorCode = E.ErrorInfo, E.Errors, EC.ErrorCode

STRSET = TSet(TStr())
IGN = TMap(TInt(), TSeq(TStr()))  # line -> codes

FIELD_TYPES = {
    ("Options", "disabled_error_codes"): keyed_set(),
    ("Options", "enabled_error_codes"): keyed_set(),
    ("Errors", "used_ignored_lines"): TMap(TStr(), TMap(TInt(), TSeq(TStr()), default=True), default=True),
    ("Errors", "recorded"): TLDict(TStr(), TLList(TObj(ErrorInfo)), default=list),
    ("Errors", "options"): TObj(Options),
    ("Errors", "function_or_member"): TAny(),
    ("ErrorInfo", "origin_span"): TSeq(TInt()),
    ("ErrorInfo", "hidden"): TBool(),
    ("ErrorCode", "code"): TStr(),
    ("ErrorCode", "description"): TStr(),
    ("ErrorCode", "category"): TStr(),
    ("ErrorCode", "default_enabled"): TBool(),
    ("ErrorCode", "sub_code_of"): TOpt(TObj(ErrorCode)),
}

OPT_STR = TOpt(TStr())
SCOPE_OVERRIDES = {
    "mypy.scope:Scope.current_type_name": returns(OPT_STR, "type_name"),
    "mypy.scope:Scope.current_function_name": returns(OPT_STR, "function_name"),
    "mypy.errors:Errors.current_module": returns(OPT_STR, "cur_module"),
    "mypy.errors:Errors.current_target": returns(OPT_STR, "cur_target"),
    "mypy.errors:Errors.import_context": returns(TLList(TTuple([TStr(), TInt()])), "import_ctx"),
}


def pos_ge(info):
    """(end_line, end_column) >= (line, column): 'a reported end position is not before the start'"""
    f = info.fields
    ints = [f[k] for k in ("line", "column", "end_line", "end_column")]
    notnone = z3.And([z3.Not(isnone(v)) for v in ints])
    l, c, el, ec = [term(v) for v in ints]
    return z3.And(notnone, z3.Or(el > l, z3.And(el == l, ec >= c)))


# ------------------------------------------------------------------ C14: Errors.report


def setup_report(I):
    self = I.make(TObj(Errors), "self")
    a = dict(
        line=I.make(TInt(), "line"),
        column=I.make(TOpt(TInt()), "column"),
        message=I.make(TStr(), "message"),
        code=I.make(TOpt(TObj(ErrorCode)), "code"),
    )
    kw = dict(
        blocker=I.make(TBool(), "blocker"),
        severity=I.make(TStr(), "severity"),
        only_once=I.make(TBool(), "only_once"),
        origin_span=I.make(TOpt(TSeq(TInt())), "origin_span"),
        offset=I.make(TInt(), "offset"),
        end_line=I.make(TOpt(TInt()), "end_line"),
        end_column=I.make(TOpt(TInt()), "end_column"),
        parent_error=I.make(TOpt(TObj(ErrorInfo)), "parent_error"),
    )
    # requires: offset is an indentation width chosen by the caller (messages.py passes small constants)
    I.ctx.assume(z3.And(kw["offset"].t >= 0, kw["offset"].t <= 1000))
    env = {"args": [self, a["line"], a["column"], a["message"], a["code"]], "kwargs": kw, "self": self}
    env.update(a)
    env.update(kw)
    return env


def ens_report_pos(I, env, res):
    return pos_ge(res)


def ens_report_passes_same_info(I, env, res):
    ev = [e for e in I.ctx.events if e[0] == "add_error_info"]
    if len(ev) != 1:
        return z3.BoolVal(False)
    return z3.BoolVal(ev[0][1][1] is res)


def ens_report_fields(I, env, res):
    """the ErrorInfo carries the caller's line/column (column None -> -1), severity, blocker, only_once"""
    f = res.fields
    col = env["column"]
    exp_col = z3.If(isnone(col), z3.IntVal(-1), term(col))
    return z3.And(term(f["line"]) == env["line"].t, z3.Not(isnone(f["column"])), term(f["column"]) == exp_col, term(f["severity"]) == env["severity"].t,
                  term(f["blocker"]) == env["blocker"].t, term(f["only_once"]) == env["only_once"].t)


def ens_report_code_default(I, env, res):
    """code defaulting: explicit code > parent's code > misc (non-blockers only)"""
    c = res.fields["code"]
    code, parent, blocker = env["code"], env["parent_error"], env["blocker"].t
    if code is not NONE:
        return z3.BoolVal(c is code)
    if parent is not NONE and parent.fields.get("code", NONE) is not NONE:
        return z3.BoolVal(c is parent.fields["code"])
    if c is NONE:
        return blocker
    return z3.And(z3.Not(blocker), c.fields["code"].t == z3.StringVal("misc")) if "code" in c.fields else z3.And(z3.Not(blocker), z3.BoolVal(c.live is EC.MISC))


def report_targets():
    ov = dict(SCOPE_OVERRIDES)
    ov["mypy.errors:Errors.add_error_info"] = record("add_error_info")
    return [
        Target("errors.report", "mypy.errors:Errors.report", setup_report,
               ensures=[("end-not-before-start", ens_report_pos), ("info-passed-to-add_error_info", ens_report_passes_same_info),
                        ("fields-from-arguments", ens_report_fields), ("code-defaulting", ens_report_code_default)],
               raises=(AssertionError,), overrides=ov, field_types=FIELD_TYPES,
               note="AssertionError allowed: the two asserts on parent_error are caller obligations (notes only, same code)"),
    ]


# ------------------------------------------------------------------ report_simple_error / note_for_info


def setup_simple(I):
    self = I.make(TObj(Errors), "self")
    file, line, msg = I.make(TStr(), "file"), I.make(TInt(), "line"), I.make(TStr(), "message")
    code = I.make(TOpt(TObj(ErrorCode)), "code")
    return {"args": [self, file, line, msg, code], "self": self, "file": file, "line": line}


def added_info(I):
    ev = [e for e in I.ctx.events if e[0] == "_add_error_info"]
    return ev


def ens_simple(I, env, res):
    ev = added_info(I)
    if len(ev) != 1:
        return z3.BoolVal(False)
    info = ev[0][1][2]
    return z3.And(pos_ge(info), info.fields["line"].t == env["line"].t, info.fields["severity"].t == z3.StringVal("error"),
                  z3.Not(info.fields["blocker"].t), I.eq(ev[0][1][1], env["file"]))


def setup_note(I):
    self = I.make(TObj(Errors), "self")
    file = I.make(TStr(), "file")
    info = I.make(TObj(ErrorInfo), "info")
    msg = I.make(TStr(), "message")
    code = I.make(TOpt(TObj(ErrorCode)), "code")
    for f in ("line", "column", "end_line", "end_column"):
        I.getattr(info, f)
    I.ctx.assume(pos_ge(info))  # requires: the info it annotates satisfies the invariant
    return {"args": [self, file, info, msg, code], "kwargs": {"only_once": I.make(TBool(), "only_once"), "priority": I.make(TInt(), "priority")},
            "self": self, "file": file, "info": info}


def ens_note(I, env, res):
    ev = added_info(I)
    if len(ev) != 1:
        return z3.BoolVal(False)
    n = ev[0][1][2]
    o = env["info"]
    same = z3.And([n.fields[f].t == o.fields[f].t for f in ("line", "column", "end_line", "end_column")])
    return z3.And(pos_ge(n), same, n.fields["severity"].t == z3.StringVal("note"), z3.Not(n.fields["blocker"].t))


def simple_targets():
    ov = dict(SCOPE_OVERRIDES)
    ov["mypy.errors:Errors._add_error_info"] = record("_add_error_info")
    return [
        Target("errors.report_simple_error", "mypy.errors:Errors.report_simple_error", setup_simple,
               ensures=[("one-error-at-line-with-valid-span", ens_simple)], raises=(), overrides=ov, field_types=FIELD_TYPES),
        Target("errors.note_for_info", "mypy.errors:Errors.note_for_info", setup_note,
               ensures=[("note-copies-position-of-parent", ens_note)], raises=(), overrides=ov, field_types=FIELD_TYPES),
    ]


# ------------------------------------------------------------------ C13: enabled / ignored predicates


def in_set(I, opts, field_name, ec):
    s = I.getattr(opts, field_name)
    return z3.Select(s.t, ec.fields["code"].t)


def spec_enabled(I, self, ec):
    """disabled > enabled > parent disabled > default (documented precedence; with the Options
    invariant disabled & enabled == {} the first two cannot conflict)"""
    opts = I.getattr(self, "options")
    I.getattr(ec, "code")
    dis = in_set(I, opts, "disabled_error_codes", ec)
    en = in_set(I, opts, "enabled_error_codes", ec)
    parent = I.getattr(ec, "sub_code_of")
    I.getattr(ec, "default_enabled")
    if parent is NONE:
        pdis = z3.BoolVal(False)
    else:
        I.getattr(parent, "code")
        pdis = in_set(I, opts, "disabled_error_codes", parent)
    return z3.If(dis, False, z3.If(en, True, z3.If(pdis, False, ec.fields["default_enabled"].t)))


def setup_enabled(I):
    self = I.make(TObj(Errors), "self")
    ec = I.make(TObj(ErrorCode), "error_code")
    return {"args": [self, ec], "self": self, "ec": ec}


def ens_enabled(I, env, res):
    return res.t == spec_enabled(I, env["self"], env["ec"])


def setup_ignored(I):
    self = I.make(TObj(Errors), "self")
    line = I.make(TInt(), "line")
    info = I.make(TObj(ErrorInfo), "info")
    ignores = I.make(IGN, "ignores")
    return {"args": [self, line, info, ignores], "self": self, "line": line, "info": info, "ignores": ignores}


def spec_ignored(I, self, line_t, info, ignores):
    """from the property: blockers never; a disabled code always; otherwise the line must carry an
    ignore that is bare or lists the error's code or the code it is a sub-code of."""
    blocker = I.getattr(info, "blocker").t
    code = I.getattr(info, "code")
    s, mk, accs = ignores.ty.parts()
    has = z3.Select(accs[0](ignores.t), line_t)
    codes = z3.Select(accs[1](ignores.t), line_t)
    bare = z3.Length(codes) == 0
    if code is NONE:
        return z3.And(z3.Not(blocker), has, bare)
    en = spec_enabled(I, self, code)
    listed = z3.Contains(codes, z3.Unit(I.getattr(code, "code").t))
    parent = I.getattr(code, "sub_code_of")
    if parent is not NONE:
        listed = z3.Or(listed, z3.Contains(codes, z3.Unit(I.getattr(parent, "code").t)))
    return z3.And(z3.Not(blocker), z3.Or(z3.Not(en), z3.And(has, z3.Or(bare, listed))))


def ens_ignored(I, env, res):
    return res.t == spec_ignored(I, env["self"], env["line"].t, env["info"], env["ignores"])


def predicate_targets():
    return [
        Target("errors.is_error_code_enabled", "mypy.errors:Errors.is_error_code_enabled", setup_enabled,
               ensures=[("documented-precedence", ens_enabled)], raises=(), field_types=FIELD_TYPES),
        Target("errors.is_ignored_error", "mypy.errors:Errors.is_ignored_error", setup_ignored,
               ensures=[("matches-iff-line-ignored-and-code-listed", ens_ignored)], raises=(), field_types=FIELD_TYPES),
    ]


# ------------------------------------------------------------------ C13: add_error_info


def setup_add(I):
    self = I.make(TObj(Errors), "self")
    info = I.make(TObj(ErrorInfo), "info")
    file = I.make(TOpt(TStr()), "file")
    g = I.ctx.ghost
    # snapshot of the state the frame conditions talk about
    used = I.getattr(self, "used_ignored_lines")
    once = I.getattr(self, "only_once_messages")
    ign = I.getattr(self, "ignored_lines")
    ign_files = I.getattr(self, "ignored_files")
    g["snap"] = {"used": used.t, "once": once.t, "ign": ign.t, "ign_files": ign_files.t}
    g["self"], g["info"] = self, info
    I.getattr(info, "origin_span")
    return {"args": [self, info], "kwargs": {"file": file}, "self": self, "info": info, "file": file}


def eff_file(I, env):
    """file = file or self.file"""
    f = env["file"]
    selff = I.getattr(env["self"], "file").t
    return z3.If(z3.Or(isnone(f), z3.Length(term(f)) == 0), selff, term(f))


def spec_match_at(I, self, info, file_t, line_t):
    """is_ignored_error(line, info, self.ignored_lines[file]) in spec form"""
    ignall = I.ctx.ghost["snap"]["ign"]
    s, mk, accs = TMap(TStr(), IGN).parts()
    inner = z3.Select(accs[1](ignall), file_t)
    return spec_ignored(I, self, line_t, info, ZVal(IGN, Cell(inner)))


def file_has_ignores(I, file_t):
    s, mk, accs = TMap(TStr(), IGN).parts()
    return z3.Select(accs[0](I.ctx.ghost["snap"]["ign"]), file_t)


def add_loop_inv(I, env):
    """no bookkeeping change so far and no earlier line of the span matched"""
    g = I.ctx.ghost
    self, info = g["self"], g["info"]
    i = env["__i"].t
    lines = env["lines"].t
    file_t = term(env["file"])
    j = z3.Int("inv_j")
    used_now = I.getattr(self, "used_ignored_lines").t
    none_before = z3.ForAll([j], z3.Implies(z3.And(0 <= j, j < i), z3.Not(spec_match_at(I, self, info, file_t, lines[j]))))
    g["loop_i"] = i
    return z3.And(used_now == g["snap"]["used"], none_before)


def add_events(I):
    return [e for e in I.ctx.events if e[0] == "_add_error_info"], [e for e in I.ctx.events if e[0] == "_filter_error"]


def ens_add_shown_iff_not_suppressed(I, env, res):
    """the info reaches _add_error_info (is shown) iff it is neither filtered by a watcher, nor
    suppressed by an ignore on a line of its span, nor in an ignored file, nor a repeated
    only-once message; blockers are never suppressed."""
    g = I.ctx.ghost
    self, info = env["self"], env["info"]
    adds, filters = add_events(I)
    filtered = filters[0][3] if filters else z3.BoolVal(False)
    file_t = eff_file(I, env)
    lines = info.fields["origin_span"].t
    blocker = I.getattr(info, "blocker").t
    j = z3.Int("inv_j")
    none_match = z3.ForAll([j], z3.Implies(z3.And(0 <= j, j < z3.Length(lines)), z3.Not(spec_match_at(I, self, info, file_t, lines[j]))))
    in_ign_file = z3.And(z3.Not(blocker), z3.Select(g["snap"]["ign_files"], file_t))
    once_dup = z3.And(I.getattr(info, "only_once").t, z3.Select(g["snap"]["once"], I.getattr(info, "message").t))
    if len(adds) > 1:
        return z3.BoolVal(False)
    if adds:
        same = z3.BoolVal(adds[0][1][2] is info)
        not_sup = z3.Or(blocker, z3.Not(file_has_ignores(I, file_t)), none_match)
        return z3.And(same, z3.Not(filtered), not_sup, z3.Not(in_ign_file), z3.Not(once_dup), I.eq(adds[0][1][1], SStr(file_t)))
    # dropped: one of the four reasons must hold; the witness line for 'suppressed' is the loop's current line
    i = g.get("loop_i")
    if i is not None:
        sup = z3.And(z3.Not(blocker), file_has_ignores(I, file_t), 0 <= i, i < z3.Length(lines), spec_match_at(I, self, info, file_t, lines[i]))
    else:
        sup = z3.BoolVal(False)
    return z3.Or(filtered, sup, in_ign_file, once_dup)


def ens_add_used_bookkeeping(I, env, res):
    """used_ignored_lines changes only when an ignore on the FIRST matching line of the span is
    consumed by an ENABLED code, and then by appending exactly that code to that line; and it does
    change whenever such a line exists (an ignore that suppressed something is recorded as used)."""
    g = I.ctx.ghost
    self, info = env["self"], env["info"]
    adds, filters = add_events(I)
    used0 = g["snap"]["used"]
    used1 = I.getattr(self, "used_ignored_lines").t
    filtered = filters[0][3] if filters else z3.BoolVal(False)
    file_t = eff_file(I, env)
    lines = info.fields["origin_span"].t
    blocker = I.getattr(info, "blocker").t
    code = I.getattr(info, "code")
    if code is NONE:
        code_t = z3.StringVal("misc")
        enabled = spec_enabled(I, self, I.reflect(EC.MISC))
    else:
        code_t = I.getattr(code, "code").t
        enabled = spec_enabled(I, self, code)
    UT = TMap(TStr(), TMap(TInt(), TSeq(TStr()), default=True), default=True)
    s, mk, accs = UT.parts()
    s2, mk2, accs2 = UT.v.parts()
    j = z3.Int("inv_j")

    def appended(L):
        inner0 = z3.If(z3.Select(accs[0](used0), file_t), z3.Select(accs[1](used0), file_t), empty_term(UT.v))
        codes0 = z3.If(z3.Select(accs2[0](inner0), L), z3.Select(accs2[1](inner0), L), z3.Empty(z3.SeqSort(StrS)))
        inner1 = mk2(z3.Store(accs2[0](inner0), L, z3.BoolVal(True)), z3.Store(accs2[1](inner0), L, z3.Concat(codes0, z3.Unit(code_t))))
        return mk(z3.Store(accs[0](used0), file_t, z3.BoolVal(True)), z3.Store(accs[1](used0), file_t, inner1))

    consumes = z3.And(z3.Not(filtered), z3.Not(blocker), file_has_ignores(I, file_t), enabled)
    none_match = z3.ForAll([j], z3.Implies(z3.And(0 <= j, j < z3.Length(lines)), z3.Not(spec_match_at(I, self, info, file_t, lines[j]))))
    i = g.get("loop_i")
    written = not used1.eq(used0)  # the path stored into used_ignored_lines (syntactic: same term otherwise)
    if not written:
        # nothing recorded: then nothing was consumed
        return z3.Or(z3.Not(consumes), none_match)
    if i is None:
        return z3.BoolVal(False)  # a write outside the span loop is never legitimate
    none_before = z3.ForAll([j], z3.Implies(z3.And(0 <= j, j < i), z3.Not(spec_match_at(I, self, info, file_t, lines[j]))))
    first_i = z3.And(0 <= i, i < z3.Length(lines), spec_match_at(I, self, info, file_t, lines[i]), none_before)
    return z3.And(consumes, first_i, used1 == appended(lines[i]))


def ens_add_frame(I, env, res):
    g = I.ctx.ghost
    self = env["self"]
    return z3.And(I.getattr(self, "ignored_lines").t == g["snap"]["ign"], I.getattr(self, "ignored_files").t == g["snap"]["ign_files"])


def filter_override(I, args, kwargs):
    b = I.ctx.fresh("filtered", BoolS)
    I.ctx.events.append(("_filter_error", list(args), dict(kwargs), b))
    return SBool(b)


ADD_CUT = "ignored_codes = self.ignored_lines.get(file, {}).get(info.line, [])"


def setup_add_tail(I):
    """second half of add_error_info: starts after `self._add_error_info(file, info)` from an arbitrary state"""
    env = setup_add(I)
    file = I.make(TStr(), "file_eff")
    env["file_eff"] = file
    env["locals"] = {"self": env["self"], "info": env["info"], "file": file, "lines": I.getattr(env["info"], "origin_span")}
    return env


def ens_tail_only_notes(I, env, res):
    """the tail of add_error_info only attaches notes: it never adds or removes a diagnostic other than
    through note_for_info, and leaves the ignore bookkeeping alone"""
    g = I.ctx.ghost
    self = env["self"]
    bad = [e for e in I.ctx.events if e[0] not in ("note_for_info",)]
    if bad:
        return z3.BoolVal(False)
    notes = [e for e in I.ctx.events if e[0] == "note_for_info"]
    ok = [z3.BoolVal(e[1][2] is env["info"]) for e in notes] + [I.eq(e[1][1], env["file_eff"]) for e in notes]
    once1 = I.getattr(self, "only_once_messages").t
    m = z3.Const("once_m", StrS)
    grows = z3.ForAll([m], z3.Implies(z3.Select(g["snap"]["once"], m), z3.Select(once1, m)))
    return z3.And(ok + [I.getattr(self, "used_ignored_lines").t == g["snap"]["used"], grows, ens_add_frame(I, env, res)])


def add_targets(tier):
    ov = {
        "mypy.errors:Errors._filter_error": filter_override,
        "mypy.errors:Errors._add_error_info": record("_add_error_info"),
        "mypy.errors:Errors.has_many_errors": returns(TBool(), "many_errors"),
        "mypy.errors:Errors.report_hidden_errors": record("report_hidden_errors"),
        "mypy.errors:Errors.note_for_info": record("note_for_info"),
    }
    loops = {"for scope_line in lines": LoopSpec(inv=add_loop_inv)}
    return [
        Target("errors.add_error_info.head", "mypy.errors:Errors.add_error_info", setup_add,
               ensures=[("shown-iff-not-suppressed", ens_add_shown_iff_not_suppressed), ("used-ignore-bookkeeping", ens_add_used_bookkeeping),
                        ("frame-ignore-tables-unchanged", ens_add_frame)],
               raises=(), overrides=ov, field_types=FIELD_TYPES, loops=loops, oblig_timeout_ms=20000, cut_at=ADD_CUT,
               note="cut point after self._add_error_info(file, info); the tail is errors.add_error_info.tail"),
        Target("errors.add_error_info.tail", "mypy.errors:Errors.add_error_info", setup_add_tail,
               ensures=[("tail-only-attaches-notes", ens_tail_only_notes)],
               raises=(), overrides=ov, field_types=FIELD_TYPES, oblig_timeout_ms=20000, start_at=ADD_CUT,
               note="starts at the cut point from an arbitrary state (file, info arbitrary)"),
    ]


def targets_c14(tier):
    return report_targets() + simple_targets()


def targets_c13(tier):
    return predicate_targets() + add_targets(tier)
