"""C14, one facet of 'both parsers agree': an error message that both the default parser
(mypy/fastparse.py) and the native parser (mypy/nativeparse.py) can report has the same severity class
(blocking or not) in both.  Decided on the source: every `message_registry.X` passed to an error-reporting
call in either file is collected with the blocker value of that call."""
from __future__ import annotations

import ast
import os

from pyvc.runner import StaticCheck

REPO = os.environ.get("VERIF_REPO", "/repo")


def registry_names(node):
    return {n.attr for n in ast.walk(node) if isinstance(n, ast.Attribute) and isinstance(n.value, ast.Name) and n.value.id == "message_registry"}


def const_bool(e):
    return e.value if isinstance(e, ast.Constant) and isinstance(e.value, bool) else None


def collect_fastparse():
    tree = ast.parse(open(os.path.join(REPO, "mypy/fastparse.py")).read())
    out = {}
    for cls in [n for n in tree.body if isinstance(n, ast.ClassDef)]:
        for call in [n for n in ast.walk(cls) if isinstance(n, ast.Call) and isinstance(n.func, ast.Attribute) and n.func.attr == "fail" and isinstance(n.func.value, ast.Name) and n.func.value.id == "self"]:
            names = registry_names(call.args[0]) if call.args else set()
            if not names:
                continue
            if cls.name == "TypeConverter":
                b = True  # TypeConverter.fail always reports a blocker
            else:
                kw = next((k.value for k in call.keywords if k.arg == "blocker"), call.args[3] if len(call.args) > 3 else None)
                b = const_bool(kw) if kw is not None else None
            for n in names:
                out.setdefault(n, set()).add(b)
    return out


def collect_nativeparse():
    tree = ast.parse(open(os.path.join(REPO, "mypy/nativeparse.py")).read())
    out = {}
    for call in [n for n in ast.walk(tree) if isinstance(n, ast.Call) and isinstance(n.func, ast.Attribute) and n.func.attr == "add_error"]:
        names = registry_names(call.args[0]) if call.args else set()
        if not names:
            continue
        kw = next((k.value for k in call.keywords if k.arg == "blocker"), None)
        b = False if kw is None else const_bool(kw)  # add_error(..., blocker=False) is the default
        for n in names:
            out.setdefault(n, set()).add(b)
    return out


def check_severity_agreement():
    a, b = collect_fastparse(), collect_nativeparse()
    both = sorted(set(a) & set(b))
    if len(a) < 5 or not b:
        return [{"name": "parsers-agree/collected", "status": "unknown", "where": f"fastparse: {len(a)} messages, nativeparse: {len(b)}"}]
    obs = [{"name": "parsers-agree/collected", "status": "discharged", "where": f"fastparse reports {len(a)} registry messages, nativeparse {len(b)}, {len(both)} in common"}]
    for n in both:
        if None in a[n] or None in b[n]:
            obs.append({"name": f"parsers-agree/severity/{n}", "status": "unknown", "where": "a blocker argument that is not a literal"})
            continue
        ok = a[n] == b[n]
        obs.append({"name": f"parsers-agree/severity/{n}", "status": "discharged" if ok else "refuted", "where": f"fastparse blocker in {sorted(a[n])}, nativeparse blocker in {sorted(b[n])}",
                    "detail": "" if ok else "the same message stops the build under one parser and not under the other", "key": f"parser-severity:{n}", "confirmed": True})
    return obs


def targets(tier):
    return [StaticCheck("parsers.severity_agreement", check_severity_agreement, note="registry messages reported by both parsers, with the blocker value at each call site")]
