"""C17, precedence clause for per-module settings ('concrete module section, then unstructured wildcard
sections (later wins), then structured wildcards (more specific wins), then the global options'):
contracts on Options.clone_for_module (mypy/options.py), in regions.

  head      a module with its own resolved entry gets exactly that entry (it already incorporates
            everything below it: see build_per_module_cache);
  search    one generic step of the structured-wildcard search: the candidate key for depth i is
            '<first i components>.*'; a hit selects that entry and stops the search, a miss changes nothing;
            the loop header enumerates depths from the longest to the shortest (so the most specific
            wildcard wins);
  globs     one generic unstructured glob: applied on top of the current result iff its pattern matches,
            in file order (so later sections win), and only for concrete module names;
"""
from __future__ import annotations

import ast

import z3

from pyvc.interp import NONE, func_node
from pyvc.runner import StaticCheck
from pyvc.sym import *
from pyvc.target import Target, resolve
from pyvc.types import *
from .common import *

from mypy.options import Options

MATCH = z3.Function("glob_matches", StrS, StrS, BoolS)
JOIN = z3.Function("py_join", StrS, z3.SeqSort(StrS), StrS)


class FakePattern:
    key: str

    def match(self, s):
        raise NotImplementedError


def match_contract(I, args, kwargs):
    hit = MATCH(args[0].fields["key"].t, args[1].t)
    I.ctx.ghost["match_term"] = hit
    # re.Pattern.match returns a match object or None: truthiness is all the code uses
    return SBool(hit)


def apply_contract(I, args, kwargs):
    o = I.new_object(Options)
    I.ctx.events.append(("apply_changes", args[0], args[1], o))
    return o


FT = {
    ("Options", "_per_module_cache"): TOpt(TLDict(TStr(), TObj(Options))), ("Options", "_unused_configs"): TSet(TStr()),
    ("Options", "per_module_options"): TLDict(TStr(), TAny()), ("FakePattern", "key"): TStr(),
}
OV = {"contracts.permodule:FakePattern.match": match_contract, "mypy.options:Options.apply_changes": apply_contract,
      "mypy.options:Options.build_per_module_cache": noop}


# ---- head: direct entry

def setup_head(I):
    self = I.make(TObj(Options), "self")
    module = I.make(TStr(), "module")
    cache = I.getattr(self, "_per_module_cache")
    if cache is NONE:
        from pyvc.ctx import Infeasible
        raise Infeasible()
    return {"args": [self, module], "self": self, "module": module, "cache": cache}


def ens_head(I, env, res):
    """cut right after the direct-entry test: reaching the cut means the module has no entry of its own;
    returning before it means the entry itself was returned"""
    if env.get("__cut"):
        return z3.Not(I.contains(env["cache"], env["module"]))
    entry = I.subscript(env["cache"], env["module"])
    return z3.And(I.contains(env["cache"], env["module"]), z3.BoolVal(res is entry))


# ---- search: one depth

def setup_search(I):
    self = I.make(TObj(Options), "self")
    cache = I.getattr(self, "_per_module_cache")
    if cache is NONE:
        from pyvc.ctx import Infeasible
        raise Infeasible()
    path = I.make(TSeq(TStr()), "path")
    i = I.make(TInt(), "i")
    I.ctx.assume(z3.And(i.t >= 1, i.t <= z3.Length(path.t)))
    options = I.make(TObj(Options), "options_so_far")
    return {"args": [], "locals": {"self": self, "path": path, "i": i, "options": options, "module": I.make(TStr(), "module")},
            "self": self, "cache": cache, "path": path, "i": i, "options0": options}


def ens_search(I, env, res):
    path, i = env["path"].t, env["i"].t
    key = JOIN(z3.StringVal("."), z3.Concat(z3.Extract(path, 0, i), z3.Unit(z3.StringVal("*"))))
    ks = SStr(key)
    hit = I.contains(env["cache"], ks)
    opt1 = env["__locals"]["options"]
    broke = bool(I.ctx.ghost.get("__broke"))
    if opt1 is env["options0"]:
        return z3.Not(hit)
    return z3.And(hit, z3.BoolVal(opt1 is I.subscript(env["cache"], ks)))


def check_search_order():
    """the search enumerates depths from len(path) down to 1 and stops at the first hit (break)"""
    live = resolve("mypy.options:Options.clone_for_module")
    fnode, mod = func_node(live)
    loops = [n for n in ast.walk(fnode) if isinstance(n, ast.For) and isinstance(n.iter, ast.Call) and isinstance(n.iter.func, ast.Name) and n.iter.func.id == "range"]
    if len(loops) != 1:
        return [{"name": "permodule/search-loop-located", "status": "unknown", "where": f"{len(loops)} range loops in clone_for_module"}]
    lp = loops[0]
    hdr = ast.unparse(lp.iter).replace(" ", "")
    ok_hdr = hdr == "range(len(path),0,-1)"
    has_break = any(isinstance(n, ast.Break) for n in ast.walk(lp))
    a = lp.iter.args
    step = a[2] if len(a) == 3 else None
    ascending = step is None or (isinstance(step, ast.Constant) and isinstance(step.value, int) and step.value > 0)
    # refuted: the first hit is no longer the most specific one (ascending enumeration, or no stop at the
    # first hit); any other unrecognised header is undecided
    st = "discharged" if (ok_hdr and has_break) else "refuted" if (ascending or not has_break) else "unknown"
    return [{"name": "permodule/most-specific-wildcard-first", "status": st, "where": f"mypy/options.py clone_for_module: for i in {ast.unparse(lp.iter)}",
             "detail": "" if st == "discharged" else "the search no longer runs from the longest prefix to the shortest with a break at the first hit", "key": "permodule-search-order", "confirmed": True}]


# ---- globs: one unstructured section

def setup_glob(I):
    self = I.make(TObj(Options), "self")
    module = I.make(TStr(), "module")
    key = I.make(TStr(), "key")
    pat = I.new_object(FakePattern)
    pat.fields["key"] = key
    options = I.make(TObj(Options), "options_so_far")
    return {"args": [], "locals": {"self": self, "module": module, "key": key, "pattern": pat, "options": options}, "self": self, "module": module, "key": key, "options0": options}


def ens_glob(I, env, res):
    opt1 = env["__locals"]["options"]
    ap = [e for e in I.ctx.events if e[0] == "apply_changes"]
    hit = MATCH(env["key"].t, env["module"].t)
    if not ap:
        return z3.And(z3.Not(hit), z3.BoolVal(opt1 is env["options0"]))
    if len(ap) != 1:
        return z3.BoolVal(False)
    e = ap[0]
    changes = I.subscript(I.getattr(env["self"], "per_module_options"), env["key"])
    return z3.And(hit, z3.BoolVal(e[1] is env["options0"] and e[2] is changes and opt1 is e[3]))


def targets(tier):
    return [
        Target("permodule.clone_for_module.direct_entry", "mypy.options:Options.clone_for_module", setup_head, ensures=[("own-entry-wins", ens_head)], raises=(),
               overrides=OV, field_types=FT, cut_at="options = self", note="region up to the start of the wildcard search"),
        Target("permodule.clone_for_module.search_step", "mypy.options:Options.clone_for_module", setup_search, loop_body=("for i in range(len(path), 0, -1)", None),
               ensures=[("hit-selects-the-entry-miss-changes-nothing", ens_search)], raises=(), overrides=OV, field_types=FT),
        StaticCheck("permodule.clone_for_module.search_order", check_search_order, note="loop header and break, decided on the source"),
        Target("permodule.clone_for_module.glob_step", "mypy.options:Options.clone_for_module", setup_glob, loop_body=("for key, pattern in self._glob_options", None),
               ensures=[("applied-iff-pattern-matches-on-top-of-the-result-so-far", ens_glob)], raises=(KeyError,), overrides=OV, field_types=FT),
    ]
