"""C10, history clause ('a build's result does not depend on which builds were executed earlier in
the same process'), as a frame condition on process-global state (engine E4).

Every piece of state that outlives a build (enumerated from the real source by frames/globalstate.py)
must be classified below, and every classification that claims a reset is checked against the source:
the reset must be reachable from build.build().  An unclassified item, or a reset that is no longer
called, fails a named obligation."""
from __future__ import annotations

import ast
import os

from frames import globalstate as GS
from pyvc.runner import StaticCheck

REPO = os.environ.get("VERIF_REPO", "/repo")

# (module, item) -> (kind, argument, reason)
#   reset      argument = text of a call / assignment that must occur in build.build or in
#              typestate.reset_global_state (itself called from build.build)
#   rebound    argument = "Class.method" (in mypy/build.py) whose body assigns the listed attributes
#   assumption no mechanical check: the reason is reported as an unchecked assumption
CLASSIFIED = {
    ("mypy/known_modules.py", "global:_known_modules_cache"): ("reset", "reset_known_modules_cache", "the 'did you mean' module table depends on --python-version"),
    ("mypy/types.py", "instance:instance_cache"): ("reset", "instance_cache.reset", "cached Instance objects refer to one build's TypeInfos"),
    ("mypy/typestate.py", "instance:type_state"): ("reset", "reset_global_state", "subtype caches and protocol dependencies; field-by-field check below"),
    ("mypy/types.py", "classattr:TypeVarId.next_raw_id"): ("reset", "TypeVarId.next_raw_id", "fresh type variable ids restart at 1 (ids reach error messages through type variable naming)"),
    ("mypy/modules_state.py", "instance:modules_state"): ("rebound", "BuildManager.__init__:modules,node_fixer", "rebound to the new build's module table when its BuildManager is created"),
    ("mypy/build.py", "classattr:SCC.id_counter"): ("assumption", None, "SCC ids only name SCCs of one build in coordinator/worker messages and are compared for identity; they never reach diagnostics or cache records"),
    ("mypy/build.py", "classattr:State.order_counter"): ("assumption", None, "State.order only breaks ties between States of the same build (relative order); absolute values never reach output"),
    ("mypy/build.py", "global:initial_gc_freeze_done"): ("assumption", None, "garbage-collector tuning flag; no effect on results"),
    ("mypy/checker_state.py", "instance:checker_state"): ("assumption", None, "set and restored by a context manager around each TypeChecker run (None between builds)"),
    ("mypy/state.py", "instance:state"): ("assumption", None, "strict_optional is set and restored by a context manager around each use"),
    ("mypy/errorcodes.py", "container:error_codes"): ("assumption", None, "filled by ErrorCode.__init__ when the constants are created at import time; a plugin that registers codes later does so once per process"),
    ("mypy/find_sources.py", "cache:_crawl_up_helper"): ("assumption", None, "lru_cache on a method: keyed by the SourceFinder instance, which lives for one create_source_list call"),
    ("mypy/modulefinder.py", "cache:find_gitignores"): ("assumption", None, "memo of a function of the directory and the file system: file-system changes between two builds of one process are not seen (documented limitation)"),
    ("mypy/modulefinder.py", "cache:get_search_dirs"): ("assumption", None, "memo of the interpreter's search path per python executable"),
    ("mypy/util.py", "container:fields_cache"): ("assumption", None, "memo of attribute names per class object: a function of the class only"),
    ("mypy/util.py", "global:_AVAILABLE_THREADS"): ("assumption", None, "memo of the CPU count"),
}

# TypeState fields that are stacks pushed/popped in a balanced way inside one call (not history)
TYPESTATE_SCOPED = {"_assuming": "pushed and popped by the pop_on_exit context manager", "_assuming_proper": "same", "inferring": "pushed/popped around infer_against", "infer_unions": "set/restored by a context manager", "infer_polymorphic": "set/restored by a context manager"}


def parse(rel):
    return ast.parse(open(os.path.join(REPO, rel)).read())


def func(tree, qual):
    body = tree.body
    node = None
    for p in qual.split("."):
        node = next((n for n in body if isinstance(n, (ast.FunctionDef, ast.ClassDef)) and n.name == p), None)
        if node is None:
            return None
        body = node.body
    return node


def called_and_assigned(node):
    calls = {ast.unparse(n.func) for n in ast.walk(node) if isinstance(n, ast.Call)}
    assigns = set()
    for n in ast.walk(node):
        tg = n.targets if isinstance(n, ast.Assign) else [n.target] if isinstance(n, (ast.AugAssign, ast.AnnAssign)) else []
        assigns.update(ast.unparse(t) for t in tg)
    return calls, assigns


def check_global_state():
    obs = []
    items = GS.scan()
    if len(items) < 5:
        return [{"name": "globals/scan-nonempty", "status": "unknown", "where": "scanner found fewer than 5 items: layout changed?"}]
    build_t = parse("mypy/build.py")
    ts_t = parse("mypy/typestate.py")
    build_fn = func(build_t, "build")
    rgs = func(ts_t, "reset_global_state")
    if build_fn is None or rgs is None:
        return [{"name": "globals/located", "status": "unknown", "where": "build.build / typestate.reset_global_state not found"}]
    b_calls, b_assigns = called_and_assigned(build_fn)
    inner = func(build_t, "build_inner")
    if inner is not None and "build_inner" in b_calls:
        c2, a2 = called_and_assigned(inner)
        b_calls, b_assigns = b_calls | c2, b_assigns | a2
    r_calls, r_assigns = called_and_assigned(rgs)
    for mod, item in items:
        cl = CLASSIFIED.get((mod, item))
        nm = f"globals/classified/{mod}:{item}"
        if cl is None:
            obs.append({"name": nm, "status": "refuted", "where": f"{mod}: {item}", "detail": "process-global mutable state that is neither reset at the start of a build nor listed as value-independent", "key": f"unclassified:{mod}:{item}"})
            continue
        kind, arg, reason = cl
        obs.append({"name": nm, "status": "discharged", "where": f"{mod}: {item}", "detail": f"{kind}: {reason}"})
        if kind == "reset":
            direct = arg in b_calls or arg in b_assigns
            via = "reset_global_state" in b_calls and (arg in r_calls or arg in r_assigns or arg == "reset_global_state")
            ok = direct or via
            obs.append({"name": f"globals/reset-reachable-from-build/{item}", "status": "discharged" if ok else "refuted", "where": f"mypy/build.py build(): {arg}",
                        "detail": "reset called/assigned in build.build" if direct else "via typestate.reset_global_state" if via else f"`{arg}` is no longer reached from build.build()",
                        "key": f"reset-missing:{item}"})
        elif kind == "rebound":
            meth, attrs = arg.split(":")
            node = func(build_t, meth)
            ok = node is not None
            if ok:
                _, asg = called_and_assigned(node)
                name = item.split(":")[1]
                ok = all(f"{name}.{a}" in asg for a in attrs.split(","))
            obs.append({"name": f"globals/rebound-per-build/{item}", "status": "discharged" if ok else "refuted", "where": f"mypy/build.py {meth}", "key": f"rebound-missing:{item}"})
    # TypeState, field by field
    cls = func(ts_t, "TypeState")
    init = func(ts_t, "TypeState.__init__")
    fields = [t.attr for n in ast.walk(init) if isinstance(n, (ast.Assign, ast.AnnAssign)) for t in (n.targets if isinstance(n, ast.Assign) else [n.target])
              if isinstance(t, ast.Attribute) and isinstance(t.value, ast.Name) and t.value.id == "self"]
    reset_text = ""
    for m in ("reset_all_subtype_caches", "reset_protocol_deps"):
        node = func(ts_t, f"TypeState.{m}")
        called = f"type_state.{m}" in r_calls
        obs.append({"name": f"globals/typestate/{m}-called-by-reset_global_state", "status": "discharged" if (node is not None and called) else "refuted", "where": "mypy/typestate.py reset_global_state", "key": f"typestate-reset:{m}"})
        if node is not None:
            reset_text += ast.unparse(node)
    for f in fields:
        ok = f"self.{f}.clear()" in reset_text or f"self.{f} =" in reset_text or f in TYPESTATE_SCOPED
        obs.append({"name": f"globals/typestate/field-reset/{f}", "status": "discharged" if ok else "refuted", "where": f"TypeState.{f}",
                    "detail": TYPESTATE_SCOPED.get(f, "cleared by reset_all_subtype_caches / reset_protocol_deps") if ok else "field survives reset_global_state", "key": f"typestate-field:{f}"})
    return obs


def assumptions():
    return [f"{mod} {item}: {reason}" for (mod, item), (kind, arg, reason) in sorted(CLASSIFIED.items()) if kind == "assumption"] + \
           [f"TypeState.{f}: {r}" for f, r in sorted(TYPESTATE_SCOPED.items())]


def targets(tier):
    return [StaticCheck("globals.process-state-frame", check_global_state,
                        note="process-global mutable state of package mypy (containers mutated by functions, `global` rebinding, functools caches, module-level instances, class-level counters) is reset at the start of build.build() or pinned with a reason")]
