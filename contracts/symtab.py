"""C11, SymbolTable.write: the entry count written first and the entries written after it are selected
by the same rule, one generic iteration of each of the two loops (the codec engine's lock-step rule
has no filtered form, so the composition `count == number of entries that follow` is the standard
counting argument over these two per-iteration contracts, not machine-checked)."""
from __future__ import annotations

import z3

from pyvc.interp import NONE
from pyvc.sym import *
from pyvc.target import Target
from pyvc.types import *
from .common import *

import mypy.nodes as N

FT = {("SymbolTableNode", "no_serialize"): TBool()}
BUILTINS = z3.StringVal("__builtins__")


def kept(key, value, I):
    """the rule: every symbol except the implicit `__builtins__` entry and symbols marked no_serialize"""
    return z3.And(key.t != BUILTINS, z3.Not(I.getattr(value, "no_serialize").t))


def setup_count(I):
    key, value = I.make(TStr(), "key"), I.make(TObj(N.SymbolTableNode), "value")
    size = I.make(TInt(), "size")
    return {"args": [], "locals": {"key": key, "value": value, "size": size}, "key": key, "value": value, "size0": size.t}


def ens_count(I, env, res):
    size1 = env["__locals"]["size"].t
    return size1 == env["size0"] + z3.If(kept(env["key"], env["value"], I), 1, 0)


def rec(tag):
    def h(I, args, kwargs):
        I.ctx.events.append((tag,) + tuple(args))
        return NONE
    return h


class FakeTable:
    """the table being written: only `self[key]` is used inside the loop"""

    def __getitem__(self, key):
        raise NotImplementedError


def setup_write(I):
    key, value = I.make(TStr(), "key"), I.make(TObj(N.SymbolTableNode), "value")
    fullname = I.make(TStr(), "fullname")
    data = I.make(TAny(), "data")
    tbl = SDict([(key, value)])
    return {"args": [], "locals": {"key": key, "self": tbl, "fullname": fullname, "data": data}, "key": key, "value": value, "fullname": fullname, "data": data}


def ens_write(I, env, res):
    """a kept entry is written as its key followed by the symbol itself, under (fullname, key); a skipped
    entry writes nothing"""
    ev = [e for e in I.ctx.events if e[0] in ("write_str_bare", "SymbolTableNode.write")]
    k = kept(env["key"], env["value"], I)
    if not ev:
        return z3.Not(k)
    if [e[0] for e in ev] != ["write_str_bare", "SymbolTableNode.write"]:
        return z3.BoolVal(False)
    a, b = ev
    return z3.And(k, a[2].t == env["key"].t, z3.BoolVal(b[1] is env["value"]), b[3].t == env["fullname"].t, b[4].t == env["key"].t,
                  z3.BoolVal(a[1] is env["data"] and b[2] is env["data"]))


# ---- JSON: one generic iteration of SymbolTable.serialize and of SymbolTable.deserialize


def setup_ser(I):
    key, value = I.make(TStr(), "key"), I.make(TObj(N.SymbolTableNode), "value")
    fullname = I.make(TStr(), "fullname")
    data = SDict([(SStr(z3.StringVal(".class")), SStr(z3.StringVal("SymbolTable")))])
    I.ctx.assume(key.t != z3.StringVal(".class"))  # requires: symbol names are Python names, never the tag member
    return {"args": [], "locals": {"key": key, "value": value, "fullname": fullname, "data": data}, "key": key, "value": value, "fullname": fullname, "data": data}


def ens_ser(I, env, res):
    """a kept symbol becomes the member `key` of the JSON object, holding value.serialize(fullname, key);
    a skipped symbol adds nothing"""
    ev = [e for e in I.ctx.events if e[0] == "SymbolTableNode.serialize"]
    k = kept(env["key"], env["value"], I)
    extra = [(kk, vv) for kk, vv in env["data"].entries[1:]]
    if not ev:
        return z3.And(z3.Not(k), z3.BoolVal(not extra))
    if len(ev) != 1 or len(extra) != 1:
        return z3.BoolVal(False)
    e = ev[0]
    kk, vv = extra[0]
    return z3.And(k, kk.t == env["key"].t, z3.BoolVal(e[1] is env["value"] and vv is e[-1]), e[2].t == env["fullname"].t, e[3].t == env["key"].t)


def ser_contract(I, args, kwargs):
    tok = SOpaque("json(symbol)")
    I.ctx.events.append(("SymbolTableNode.serialize",) + tuple(args) + (tok,))
    return tok


def setup_deser(I):
    key = I.make(TStr(), "key")
    value = SOpaque("json(symbol)")
    st = SDict([])
    return {"args": [], "locals": {"key": key, "value": value, "st": st}, "key": key, "value": value, "st": st}


def deser_contract(I, args, kwargs):
    o = I.make(TObj(N.SymbolTableNode), "decoded")
    I.ctx.events.append(("SymbolTableNode.deserialize", args[-1], o))
    return o


def ens_deser(I, env, res):
    """every member except ".class" becomes the entry `key` of the table, holding the decoded symbol"""
    ev = [e for e in I.ctx.events if e[0] == "SymbolTableNode.deserialize"]
    is_class = env["key"].t == z3.StringVal(".class")
    ents = env["st"].entries
    if not ev:
        return z3.And(is_class, z3.BoolVal(not ents))
    if len(ev) != 1 or len(ents) != 1:
        return z3.BoolVal(False)
    return z3.And(z3.Not(is_class), ents[0][0].t == env["key"].t, z3.BoolVal(ents[0][1] is ev[0][2] and ev[0][1] is env["value"]))


def targets_json(tier):
    return [
        Target("json.nodes.SymbolTable.serialize.entry_iteration", "mypy.nodes:SymbolTable.serialize", setup_ser, loop_body=("for key, value in self.items()", None),
               ensures=[("serializes-exactly-the-kept-entries", ens_ser)], raises=(), overrides={"mypy.nodes:SymbolTableNode.serialize": ser_contract}, field_types=FT),
        Target("json.nodes.SymbolTable.deserialize.entry_iteration", "mypy.nodes:SymbolTable.deserialize", setup_deser, loop_body=("for key, value in data.items()", None),
               ensures=[("decodes-every-member-but-the-class-tag", ens_deser)], raises=(), overrides={"mypy.nodes:SymbolTableNode.deserialize": deser_contract}, field_types=FT),
    ]


def targets(tier):
    ov = {"librt.internal:write_str": rec("write_str_bare"), "mypy.nodes:write_str_bare": rec("write_str_bare"), "mypy.cache:write_str_bare": rec("write_str_bare"),
          "mypy.nodes:SymbolTableNode.write": rec("SymbolTableNode.write")}
    return [
        Target("codec.nodes.SymbolTable.write.count_iteration", "mypy.nodes:SymbolTable.write", setup_count, loop_body=("for key, value in self.items()", None),
               ensures=[("counts-exactly-the-kept-entries", ens_count)], raises=(), field_types=FT),
        Target("codec.nodes.SymbolTable.write.entry_iteration", "mypy.nodes:SymbolTable.write", setup_write, loop_body=("for key in sorted(self)", None),
               ensures=[("writes-exactly-the-kept-entries", ens_write)], raises=(), overrides=ov, field_types=FT),
    ]


# ---- order of a namespace: SymbolTable is a dict and its insertion order is the declaration order, which
# the analysis reads back (TypeInfo.enum_members walks `names`; the expansion of an enum into its members,
# and so the text of narrowed types, follows that order).  A reloaded table must therefore enumerate its
# symbols in the order of the table that was written.


def check_table_order():
    import ast
    from pyvc.interp import func_node
    from pyvc.target import resolve

    obs = []
    fnode, _ = func_node(resolve("mypy.nodes:SymbolTable.write"))
    loops = [n for n in ast.walk(fnode) if isinstance(n, ast.For) and any(isinstance(c, ast.Call) and ast.unparse(c.func).endswith("value.write") for c in ast.walk(n))]
    if len(loops) != 1:
        obs.append({"name": "symtab/binary-writer-keeps-table-order", "status": "unknown", "where": f"{len(loops)} entry loops in SymbolTable.write"})
    else:
        it = ast.unparse(loops[0].iter).replace(" ", "")
        st = "discharged" if it in ("self", "self.items()", "self.keys()") else "refuted" if it.startswith("sorted(") else "unknown"
        obs.append({"name": "symtab/binary-writer-keeps-table-order", "status": st, "where": f"mypy/nodes.py SymbolTable.write: for ... in {it}",
                    "detail": "" if st == "discharged" else "the entries are written in sorted key order and SymbolTable.read rebuilds the table in that order: the declaration order of a reloaded class or module namespace is lost",
                    "key": "symtab-order:write:" + it, "confirmed": True})
    # JSON: SymbolTable.serialize builds a JSON object; the object is dumped with sorted keys
    dnode, _ = func_node(resolve("mypy.util:json_dumps"))
    src = ast.unparse(dnode)
    sorts = "OPT_SORT_KEYS" in src or "sort_keys=True" in src
    snode, _ = func_node(resolve("mypy.nodes:SymbolTable.serialize"))
    as_object = any(isinstance(n, ast.Subscript) and isinstance(n.ctx, ast.Store) and ast.unparse(n.value) == "data" for n in ast.walk(snode))
    if as_object and sorts:
        st, detail = "refuted", "SymbolTable.serialize stores the symbols as members of one JSON object and util.json_dumps writes objects with sorted keys: the declaration order is lost in the JSON format too"
    elif as_object and not sorts:
        st, detail = "discharged", ""
    else:
        st, detail = "unknown", ""
    obs.append({"name": "symtab/json-writer-keeps-table-order", "status": st, "where": "mypy/nodes.py SymbolTable.serialize + mypy/util.py json_dumps", "detail": detail,
                "key": "symtab-order:json:object-with-sorted-keys", "confirmed": True})
    return obs


def targets_order(tier):
    from pyvc.runner import StaticCheck

    return [StaticCheck("codec.nodes.SymbolTable.order", check_table_order, note="traversal order of the two writers, decided on the source; native witness selftest/c11_order_witness.py")]
