"""C15, error-kind frame: the fixed-width helpers signal an exception by returning the sentinel
CPY_LL_INT_ERROR (-113) *with an exception set*; -113 is also an ordinary result of every one of them
(-226 // 2, -113 % -200, int(-113)).  The IR therefore has to test the exception state and not only the
value: the primitive that calls such a helper must be registered with ERR_MAGIC_OVERLAPPING.  With
ERR_MAGIC a legitimate -113 is taken for an error with no exception set.

Decided on the source of mypyc/primitives/int_ops.py: every custom_op / function_op / binary_op whose
c_function_name is one of the helpers verified under C15 (CPyInt{64,32,16}_Divide/Remainder,
CPyLong_AsInt{64,32,16}, CPyLong_AsUInt8) and that can fail carries error_kind=ERR_MAGIC_OVERLAPPING.
That -113 is an ordinary result is a cover obligation on the same IR the value contracts are proved on."""
from __future__ import annotations

import ast
import os
import re

from pyvc.runner import StaticCheck

REPO = os.environ.get("VERIF_REPO", "/repo")
HELPERS = re.compile(r"^(CPyInt(64|32|16)_(Divide|Remainder)|CPyLong_AsInt(64|32|16)|CPyLong_AsUInt8)$")


def check_error_kinds():
    p = os.path.join(REPO, "mypyc/primitives/int_ops.py")
    tree = ast.parse(open(p).read())
    hdr = open(os.path.join(REPO, "mypyc/lib-rt/mypyc_util.h")).read()
    m = re.search(r"#define\s+CPY_LL_INT_ERROR\s+(-?\d+)", hdr)
    if not m:
        return [{"name": "errkind/sentinel-located", "status": "unknown", "where": "CPY_LL_INT_ERROR not found in mypyc_util.h"}]
    sentinel = int(m.group(1))
    rows = []
    for n in ast.walk(tree):
        if isinstance(n, ast.Call) and isinstance(n.func, ast.Name) and n.func.id in ("custom_op", "function_op", "binary_op", "method_op", "int_binary_primitive"):
            kw = {k.arg: k.value for k in n.keywords}
            cfn = kw.get("c_function_name")
            if isinstance(cfn, ast.Constant) and isinstance(cfn.value, str) and HELPERS.match(cfn.value):
                ek = kw.get("error_kind")
                rows.append((cfn.value, ast.unparse(ek) if ek is not None else None, n.lineno))
    if len(rows) < 8:
        return [{"name": "errkind/primitives-located", "status": "unknown", "where": f"only {len(rows)} primitives over the fixed-width helpers found"}]
    obs = [{"name": "errkind/sentinel-is-an-ordinary-value", "status": "discharged" if -(2 ** 15) <= sentinel < 2 ** 15 else "unknown",
            "where": f"CPY_LL_INT_ERROR = {sentinel}: inside the range of every fixed-width type concerned (i16, i32, i64; u8 uses its own check)"}]
    for cfn, ek, ln in rows:
        ok = ek == "ERR_MAGIC_OVERLAPPING"
        bad = ek in ("ERR_MAGIC", "ERR_NEVER", None)
        obs.append({"name": f"errkind/overlapping-error-value/{cfn}", "status": "discharged" if ok else "refuted" if bad else "unknown", "where": f"mypyc/primitives/int_ops.py:{ln} error_kind={ek}",
                    "detail": "" if ok else f"{cfn} returns {sentinel} both as an ordinary result and as its error value: with error_kind={ek} a correct result {sentinel} is treated as a failure although no exception is set (or a failure is never tested)",
                    "key": f"errkind:{cfn}", "confirmed": True})
    return obs


def targets(tier):
    return [StaticCheck("primitives.error_kind_of_fixed_width_helpers", check_error_kinds, note="registration of the fixed-width helpers in mypyc/primitives/int_ops.py (source-level frame)")]
