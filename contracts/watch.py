"""C03 (two mechanisms that are functions of local state): the daemon's change detection
(mypy/fswatcher.py) and the removal of stale diagnostics (Errors.clear_errors_in_targets)."""
from __future__ import annotations

import z3

from pyvc.ctx import Infeasible
from pyvc.interp import NONE, LoopSpec, PyExc
from pyvc.sym import *
from pyvc.target import Target
from pyvc.types import *
from .common import *
from .spec_watch import FakeFs, FakeStat

import mypy.fswatcher as FW

FD = TTuple([TFloat(), TInt(), TStr()])
F2I = z3.Function("py_f2i", FloatS, IntS)
ENV_HASH = z3.Function("env_hash_digest", StrS, StrS)

FT = {
    ("FileSystemWatcher", "fs"): TObj(FakeFs), ("FileSystemWatcher", "_paths"): TSet(TStr()),
    ("FileSystemWatcher", "_file_data"): TLDict(TStr(), TOpt(TObj(FW.FileData))),
    ("FakeStat", "st_mtime"): TFloat(), ("FakeStat", "st_size"): TInt(), ("FakeStat", "st_mode"): TInt(),
    ("FileData", "st_mtime"): TFloat(), ("FileData", "st_size"): TInt(), ("FileData", "hash"): TStr(),
}


def stat_contract(I, args, kwargs):
    """FileSystemCache.stat_or_none(path): whatever the file system says now -- one value per path
    within a pass (the cache is flushed between passes, not within one)"""
    g = I.ctx.ghost
    if "st" not in g:
        g["st"] = I.make(TOpt(TObj(FakeStat)), "st")
        g["st_path"] = args[1]
    return g["st"]


def hash_contract(I, args, kwargs):
    I.ctx.events.append(("hash_digest", args[1]))
    return SStr(ENV_HASH(args[1].t))


OV = {"contracts.spec_watch:FakeFs.stat_or_none": stat_contract, "contracts.spec_watch:FakeFs.hash_digest": hash_contract}


def setup_find_changed_iter(I):
    self = I.make(TObj(FW.FileSystemWatcher), "self")
    path = I.make(TStr(), "path")
    fd = I.getattr(self, "_file_data")
    # representation invariant: every path handed to _find_changed has an entry (possibly None)
    try:
        old = I.subscript(fd, path)
    except PyExc:
        raise Infeasible()
    changed = I.make(TSet(TStr()), "changed")
    return {"args": [], "locals": {"self": self, "path": path, "changed": changed, "paths": I.make(TSeq(TStr()), "paths")},
            "self": self, "path": path, "old": old, "changed": changed, "changed0": changed.t}


def fd_fields(I, v):
    return I.getattr(v, "st_mtime").t, I.getattr(v, "st_size").t, I.getattr(v, "hash").t


def ens_find_changed_iter(I, env, res):
    """one path of a pass: it is reported <=> it appeared, disappeared, or (size or whole-second mtime
    differ) and (size or content hash differ); the remembered data afterwards is what was observed
    whenever the stat differed; nothing is reported that did not change"""
    g = I.ctx.ghost
    st = g.get("st")
    if st is None:
        return z3.BoolVal(False)
    old = env["old"]
    path = env["path"]
    new = I.subscript(I.getattr(env["self"], "_file_data"), path)
    ch1 = env["changed"].t
    reported = z3.Select(ch1, path.t)
    x = z3.Const("other_path", StrS)
    frame = z3.ForAll([x], z3.Implies(x != path.t, z3.Select(ch1, x) == z3.Select(env["changed0"], x)))
    was = z3.Select(env["changed0"], path.t)
    if st is NONE:
        if old is NONE:
            return z3.And(frame, reported == was, z3.BoolVal(new is NONE))
        return z3.And(frame, reported, z3.BoolVal(new is NONE))
    size, mt = I.getattr(st, "st_size").t, I.getattr(st, "st_mtime").t
    h = ENV_HASH(path.t)
    if old is NONE:
        if new is NONE:
            return z3.BoolVal(False)
        nm, ns, nh = fd_fields(I, new)
        return z3.And(frame, reported, nm == mt, ns == size, nh == h)
    om, os_, oh = fd_fields(I, old)
    stat_differs = z3.Or(size != os_, F2I(mt) != F2I(om))
    content_differs = z3.Or(size != os_, h != oh)
    if new is NONE:
        return z3.BoolVal(False)
    nm, ns, nh = fd_fields(I, new)
    kept = z3.And(nm == om, ns == os_, nh == oh)
    refreshed = z3.And(nm == mt, ns == size, nh == h)
    return z3.And(frame, reported == z3.Or(was, z3.And(stat_differs, content_differs)), z3.If(stat_differs, refreshed, kept))


# ------------------------------------------------------------------ watched set: _paths is a subset of keys(_file_data)


def setup_watch_iter(I):
    self = I.make(TObj(FW.FileSystemWatcher), "self")
    path = I.make(TStr(), "path")
    fd = I.getattr(self, "_file_data")
    watched = z3.Select(I.getattr(self, "_paths").t, path.t)
    has = I.contains(fd, path)
    # representation invariant on entry
    I.ctx.assume(z3.Implies(watched, has))
    return {"args": [], "locals": {"self": self, "path": path, "paths": I.make(TSeq(TStr()), "paths")}, "self": self, "path": path, "watched": watched, "has0": has,
            "p0": I.getattr(self, "_paths").t}


def ens_add_iter(I, env, res):
    """after the iteration the path has an entry (None for a new path, the old data otherwise) and the
    watched set itself is not touched by the scan"""
    fd = I.getattr(env["self"], "_file_data")
    return z3.And(I.contains(fd, env["path"]), I.getattr(env["self"], "_paths").t == env["p0"])


def ens_remove_iter(I, env, res):
    """after the iteration the path has no entry"""
    fd = I.getattr(env["self"], "_file_data")
    return z3.And(z3.Not(I.contains(fd, env["path"])), I.getattr(env["self"], "_paths").t == env["p0"])


def setup_watch_tail(I):
    self = I.make(TObj(FW.FileSystemWatcher), "self")
    paths = I.make(TSeq(TStr()), "paths")
    return {"args": [], "locals": {"self": self, "paths": paths}, "self": self, "paths": paths, "p0": I.getattr(self, "_paths").t}


def ens_add_tail(I, env, res):
    x = z3.Const("p", StrS)
    p1 = I.getattr(env["self"], "_paths").t
    return z3.ForAll([x], z3.Select(p1, x) == z3.Or(z3.Select(env["p0"], x), z3.Contains(env["paths"].t, z3.Unit(x))))


def ens_remove_tail(I, env, res):
    x = z3.Const("p", StrS)
    p1 = I.getattr(env["self"], "_paths").t
    return z3.ForAll([x], z3.Select(p1, x) == z3.And(z3.Select(env["p0"], x), z3.Not(z3.Contains(env["paths"].t, z3.Unit(x)))))


def watch_set_targets():
    mk = lambda id, fn, **kw: Target(id, "mypy.fswatcher:FileSystemWatcher." + fn, overrides=OV, field_types=FT, raises=(), **kw)
    return [
        mk("watch.add_watched_paths.iteration", "add_watched_paths", setup=setup_watch_iter, loop_body=("for path in paths", None), ensures=[("path-gets-an-entry", ens_add_iter)]),
        mk("watch.add_watched_paths.tail", "add_watched_paths", setup=setup_watch_tail, start_at="self._paths |= set(paths)", ensures=[("watched-set-is-the-union", ens_add_tail)]),
        mk("watch.remove_watched_paths.iteration", "remove_watched_paths", setup=setup_watch_iter, loop_body=("for path in paths", None), ensures=[("entry-removed", ens_remove_iter)]),
        mk("watch.remove_watched_paths.tail", "remove_watched_paths", setup=setup_watch_tail, start_at="self._paths -= set(paths)", ensures=[("watched-set-is-the-difference", ens_remove_tail)]),
    ]


# ------------------------------------------------------------------ Errors.clear_errors_in_targets

from mypy.errors import ErrorInfo, Errors  # noqa: E402
from . import errs as ERRS  # noqa: E402

CE_FT = dict(ERRS.FIELD_TYPES)
CE_FT.update({
    ("ErrorInfo", "target"): TOpt(TStr()), ("ErrorInfo", "blocker"): TBool(), ("ErrorInfo", "only_once"): TBool(), ("ErrorInfo", "message"): TStr(),
    ("Errors", "only_once_messages"): TSet(TStr()), ("Errors", "has_blockers"): TSet(TStr()),
    ("Errors", "error_info_map"): TLDict(TStr(), TLList(TObj(ErrorInfo))),
})


def setup_clear_iter(I):
    self = I.make(TObj(Errors), "self")
    info = I.make(TObj(ErrorInfo), "info")
    targets = I.make(TSet(TOpt(TStr())), "targets") if False else I.make(TSet(TStr()), "targets")
    hb = I.make(TBool(), "has_blocker")
    new_errors = SList([])
    once = I.getattr(self, "only_once_messages")
    tgt = I.getattr(info, "target")
    # class invariant of Errors: the message of every recorded only-once error is in only_once_messages
    I.ctx.assume(z3.Implies(I.getattr(info, "only_once").t, z3.Select(once.t, I.getattr(info, "message").t)))
    return {"args": [], "locals": {"self": self, "info": info, "targets": targets, "has_blocker": hb, "new_errors": new_errors, "path": I.make(TStr(), "path")},
            "self": self, "info": info, "targets": targets, "hb0": hb.t, "new_errors": new_errors, "once0": once.t}


def ens_clear_iter(I, env, res):
    """one recorded error: kept (appended, in order) <=> its target is not being re-checked; a kept
    blocker keeps the file blocked; a dropped only-once message may be reported again"""
    info = env["info"]
    tgt = I.getattr(info, "target")
    in_targets = z3.And(z3.Not(isnone(tgt)), z3.Select(env["targets"].t, term(tgt)))
    kept = env["new_errors"].items
    loc = env["__locals"]
    hb1 = loc["has_blocker"]
    once1 = I.getattr(env["self"], "only_once_messages").t
    msg = I.getattr(info, "message").t
    x = z3.Const("other_msg", StrS)
    dropped_once = z3.And(in_targets, I.getattr(info, "only_once").t)
    once_ok = z3.ForAll([x], z3.Select(once1, x) == z3.And(z3.Select(env["once0"], x), z3.Not(z3.And(dropped_once, x == msg))))
    if len(kept) > 1 or (kept and kept[0] is not info):
        return z3.BoolVal(False)
    is_kept = z3.BoolVal(len(kept) == 1)
    return z3.And(is_kept == z3.Not(in_targets), ival(hb1) == ival(SBool(z3.Or(env["hb0"], z3.And(z3.Not(in_targets), I.getattr(info, "blocker").t)))), once_ok)


def setup_clear_tail(I):
    self = I.make(TObj(Errors), "self")
    path = I.make(TStr(), "path")
    hb = I.make(TBool(), "has_blocker")
    new_errors = I.make(TLList(TObj(ErrorInfo)), "new_errors")
    return {"args": [], "locals": {"self": self, "path": path, "has_blocker": hb, "new_errors": new_errors, "targets": I.make(TSet(TStr()), "targets")},
            "self": self, "path": path, "hb": hb.t, "new_errors": new_errors, "blk0": I.getattr(self, "has_blockers").t}


def ens_clear_tail(I, env, res):
    """after the scan: the file's list IS the kept list; the file stays in has_blockers only if a kept
    error is a blocker; other files' blocked status is untouched"""
    self, path = env["self"], env["path"]
    cur = I.subscript(I.getattr(self, "error_info_map"), path)
    blk1 = I.getattr(self, "has_blockers").t
    x = z3.Const("other_file", StrS)
    frame = z3.ForAll([x], z3.Implies(x != path.t, z3.Select(blk1, x) == z3.Select(env["blk0"], x)))
    return z3.And(z3.BoolVal(cur is env["new_errors"]), z3.Select(blk1, path.t) == z3.And(z3.Select(env["blk0"], path.t), env["hb"]), frame)


def clear_targets():
    return [
        Target("clear.errors_in_targets.iteration", "mypy.errors:Errors.clear_errors_in_targets", setup_clear_iter,
               loop_body=("for info in self.error_info_map[path]", None), ensures=[("kept-iff-target-not-rechecked", ens_clear_iter)],
               raises=(), overrides=ERRS.OVERRIDES if hasattr(ERRS, "OVERRIDES") else {}, field_types=CE_FT,
               note="one generic iteration of the scan; requires the Errors class invariant tying only_once errors to only_once_messages"),
        Target("clear.errors_in_targets.tail", "mypy.errors:Errors.clear_errors_in_targets", setup_clear_tail,
               start_at="self.error_info_map[path] = new_errors", ensures=[("list-replaced-and-blocked-status-exact", ens_clear_tail)],
               raises=(), field_types=CE_FT, note="the statements after the scan, from arbitrary scan results"),
    ]


# ------------------------------------------------------------------ deps: which triggers are never tracked

import mypy.server.deps as DEPS  # noqa: E402

LIB_MODULES = ("builtins", "typing", "mypy_extensions", "typing_extensions")


def setup_add_dep(I):
    self = I.make(TObj(DEPS.DependencyVisitor), "self")
    trig = I.make(TStr(), "trigger")
    tgt = I.make(TStr(), "target")
    return {"args": [self, trig, tgt], "self": self, "trigger": trig, "target": tgt, "map0": I.getattr(self, "map").t}


def ens_add_dep(I, env, res):
    """a dependency is dropped only for a trigger whose FIRST dotted component (the top-level module it
    names) is one of the four library modules; every other trigger is recorded with its target"""
    t = env["trigger"].t
    dot = z3.StringVal(".")
    k = z3.IndexOf(t, dot, 0)
    first = z3.SubString(t, 1, k - 1)  # between '<' and the first '.'
    is_lib = z3.And(z3.PrefixOf(z3.StringVal("<"), t), k >= 1, z3.Or([first == z3.StringVal(m) for m in LIB_MODULES]))
    mty = DEP_FT[("DependencyVisitor", "map")]
    s_, mk, accs = mty.parts()
    m1 = I.getattr(env["self"], "map").t
    recorded = z3.And(z3.Select(accs[0](m1), t), z3.Select(z3.Select(accs[1](m1), t), env["target"].t))
    unchanged = m1 == env["map0"]
    return z3.If(is_lib, unchanged, recorded)


DEP_FT = {("DependencyVisitor", "map"): TMap(TStr(), TSet(TStr())), ("DependencyVisitor", "scope"): TAny()}


def deps_targets():
    return [Target("deps.add_dependency", "mypy.server.deps:DependencyVisitor.add_dependency", setup_add_dep, ensures=[("only-library-modules-are-untracked", ens_add_dep)],
                   raises=(), field_types=DEP_FT, note="the first dotted component of a trigger names its top-level module")]


# ------------------------------------------------------------------ update: stale protocols are invalidated before reprocessing

def check_protocol_reset_order():
    """propagate_changes_using_dependencies: every TypeInfo that find_targets_recursive reports as a stale
    protocol has its subtype caches reset BEFORE any target is reprocessed in that round (a target
    checked against a stale positive cache entry keeps a removed error alive).  Decided on the source:
    in the round's block, an unconditional loop `for x in stale_protos: type_state.reset_subtype_caches_for(x)`
    precedes the first call of reprocess_nodes, and stale_protos is not rebound in between."""
    import ast
    import os

    from pyvc.runner import StaticCheck  # noqa: F401

    repo = os.environ.get("VERIF_REPO", "/repo")
    tree = ast.parse(open(os.path.join(repo, "mypy/server/update.py")).read())
    fn = next((n for n in tree.body if isinstance(n, ast.FunctionDef) and n.name == "propagate_changes_using_dependencies"), None)
    if fn is None:
        return [{"name": "proto-reset/located", "status": "unknown", "where": "propagate_changes_using_dependencies not found"}]
    loop = next((n for n in fn.body if isinstance(n, ast.While)), None)
    if loop is None:
        return [{"name": "proto-reset/located", "status": "unknown", "where": "propagation loop not found"}]
    body = loop.body
    var = None
    for st in body:
        if isinstance(st, ast.Assign) and isinstance(st.value, ast.Call) and isinstance(st.value.func, ast.Name) and st.value.func.id == "find_targets_recursive" \
                and isinstance(st.targets[0], ast.Tuple) and len(st.targets[0].elts) == 3 and isinstance(st.targets[0].elts[2], ast.Name):
            var = st.targets[0].elts[2].id
    if var is None:
        return [{"name": "proto-reset/located", "status": "unknown", "where": "the result of find_targets_recursive is not unpacked into three names"}]

    def calls(node, name):
        return [n for n in ast.walk(node) if isinstance(n, ast.Call) and ((isinstance(n.func, ast.Name) and n.func.id == name) or (isinstance(n.func, ast.Attribute) and n.func.attr == name))]

    first_reprocess = next((k for k, st in enumerate(body) if calls(st, "reprocess_nodes")), None)
    reset_at = None
    for k, st in enumerate(body):
        if isinstance(st, ast.For) and isinstance(st.iter, ast.Name) and st.iter.id == var and isinstance(st.target, ast.Name) and len(st.body) >= 1:
            first = st.body[0]
            if isinstance(first, ast.Expr) and calls(first, "reset_subtype_caches_for") and any(isinstance(a, ast.Name) and a.id == st.target.id for c in calls(first, "reset_subtype_caches_for") for a in c.args):
                reset_at = k
                break
    rebound = any(isinstance(st, (ast.Assign, ast.AugAssign)) and any(isinstance(t, ast.Name) and t.id == var for t in (st.targets if isinstance(st, ast.Assign) else [st.target]))
                  for st in body[(reset_at or 0) + 1:first_reprocess or len(body)])
    ok = first_reprocess is not None and reset_at is not None and reset_at < first_reprocess and not rebound
    # refuted only when no reset call at all precedes the reprocessing; any other unrecognised shape (the
    # reset moved into a helper, a different loop form) is reported undecided, not as a violation
    any_reset_before = any(calls(st, "reset_subtype_caches_for") or calls(st, "reset_all_subtype_caches") for st in body[:first_reprocess or len(body)])
    status = "discharged" if ok else "refuted" if (first_reprocess is not None and not any_reset_before) else "unknown"
    return [{"name": "proto-reset/stale-protocol-caches-reset-before-reprocessing", "status": status, "where": "mypy/server/update.py propagate_changes_using_dependencies",
             "detail": "" if ok else f"reset loop at statement {reset_at}, first reprocess_nodes at {first_reprocess}", "key": "proto-reset-order", "confirmed": True}]


def targets(tier):
    return [
        Target("watch.find_changed.iteration", "mypy.fswatcher:FileSystemWatcher._find_changed", setup_find_changed_iter,
               loop_body=("for path in paths", None), ensures=[("reported-iff-changed-and-data-refreshed", ens_find_changed_iter)],
               raises=(), overrides=OV, field_types=FT,
               note="one generic iteration (the loop touches only `path`'s entry and membership: the frame is part of the postcondition); "
                    "the file system is an arbitrary function; equal (size, whole-second mtime) => unchanged is mypy's documented assumption"),
    ] + watch_set_targets() + clear_targets() + deps_targets() + [__import__('pyvc.runner', fromlist=['StaticCheck']).StaticCheck('update.protocol_reset_order', check_protocol_reset_order, note='ordering frame decided on the source')]
