"""C03 (two mechanisms that are functions of local state): the daemon's change detection
(mypy/fswatcher.py) and the removal of stale diagnostics (Errors.clear_errors_in_targets)."""
from __future__ import annotations

import z3

from pyvc.ctx import Infeasible
from pyvc.interp import NONE, LoopSpec, PyExc
from pyvc.sym import *
from pyvc.target import Target
from pyvc.types import *
from .common import *
from .spec_watch import FakeFs, FakeStat

import mypy.fswatcher as FW

FD = TTuple([TFloat(), TInt(), TStr()])
F2I = z3.Function("py_f2i", FloatS, IntS)
ENV_HASH = z3.Function("env_hash_digest", StrS, StrS)

FT = {
    ("FileSystemWatcher", "fs"): TObj(FakeFs), ("FileSystemWatcher", "_paths"): TSet(TStr()),
    ("FileSystemWatcher", "_file_data"): TLDict(TStr(), TOpt(TObj(FW.FileData))),
    ("FakeStat", "st_mtime"): TFloat(), ("FakeStat", "st_size"): TInt(), ("FakeStat", "st_mode"): TInt(),
    ("FileData", "st_mtime"): TFloat(), ("FileData", "st_size"): TInt(), ("FileData", "hash"): TStr(),
}


def stat_contract(I, args, kwargs):
    """FileSystemCache.stat_or_none(path): whatever the file system says now -- one value per path
    within a pass (the cache is flushed between passes, not within one)"""
    g = I.ctx.ghost
    if "st" not in g:
        g["st"] = I.make(TOpt(TObj(FakeStat)), "st")
        g["st_path"] = args[1]
    return g["st"]


def hash_contract(I, args, kwargs):
    I.ctx.events.append(("hash_digest", args[1]))
    return SStr(ENV_HASH(args[1].t))


OV = {"contracts.spec_watch:FakeFs.stat_or_none": stat_contract, "contracts.spec_watch:FakeFs.hash_digest": hash_contract}


def setup_find_changed_iter(I):
    self = I.make(TObj(FW.FileSystemWatcher), "self")
    path = I.make(TStr(), "path")
    fd = I.getattr(self, "_file_data")
    # representation invariant: every path handed to _find_changed has an entry (possibly None)
    try:
        old = I.subscript(fd, path)
    except PyExc:
        raise Infeasible()
    changed = I.make(TSet(TStr()), "changed")
    return {"args": [], "locals": {"self": self, "path": path, "changed": changed, "paths": I.make(TSeq(TStr()), "paths")},
            "self": self, "path": path, "old": old, "changed": changed, "changed0": changed.t}


def fd_fields(I, v):
    return I.getattr(v, "st_mtime").t, I.getattr(v, "st_size").t, I.getattr(v, "hash").t


def ens_find_changed_iter(I, env, res):
    """one path of a pass: it is reported <=> it appeared, disappeared, or (size or whole-second mtime
    differ) and (size or content hash differ); the remembered data afterwards is what was observed
    whenever the stat differed; nothing is reported that did not change"""
    g = I.ctx.ghost
    st = g.get("st")
    if st is None:
        return z3.BoolVal(False)
    old = env["old"]
    path = env["path"]
    new = I.subscript(I.getattr(env["self"], "_file_data"), path)
    ch1 = env["changed"].t
    reported = z3.Select(ch1, path.t)
    x = z3.Const("other_path", StrS)
    frame = z3.ForAll([x], z3.Implies(x != path.t, z3.Select(ch1, x) == z3.Select(env["changed0"], x)))
    was = z3.Select(env["changed0"], path.t)
    if st is NONE:
        if old is NONE:
            return z3.And(frame, reported == was, z3.BoolVal(new is NONE))
        return z3.And(frame, reported, z3.BoolVal(new is NONE))
    size, mt = I.getattr(st, "st_size").t, I.getattr(st, "st_mtime").t
    h = ENV_HASH(path.t)
    if old is NONE:
        if new is NONE:
            return z3.BoolVal(False)
        nm, ns, nh = fd_fields(I, new)
        return z3.And(frame, reported, nm == mt, ns == size, nh == h)
    om, os_, oh = fd_fields(I, old)
    stat_differs = z3.Or(size != os_, F2I(mt) != F2I(om))
    content_differs = z3.Or(size != os_, h != oh)
    if new is NONE:
        return z3.BoolVal(False)
    nm, ns, nh = fd_fields(I, new)
    kept = z3.And(nm == om, ns == os_, nh == oh)
    refreshed = z3.And(nm == mt, ns == size, nh == h)
    return z3.And(frame, reported == z3.Or(was, z3.And(stat_differs, content_differs)), z3.If(stat_differs, refreshed, kept))


def targets(tier):
    return [
        Target("watch.find_changed.iteration", "mypy.fswatcher:FileSystemWatcher._find_changed", setup_find_changed_iter,
               loop_body=("for path in paths", None), ensures=[("reported-iff-changed-and-data-refreshed", ens_find_changed_iter)],
               raises=(), overrides=OV, field_types=FT,
               note="one generic iteration (the loop touches only `path`'s entry and membership: the frame is part of the postcondition); "
                    "the file system is an arbitrary function; equal (size, whole-second mtime) => unchanged is mypy's documented assumption"),
    ]
