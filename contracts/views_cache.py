"""C11 / C02 / C07: round-trip contracts for the classes of mypy/cache.py and mypy/errors.py"""
from __future__ import annotations

import z3

from pyvc.codec_target import CodecTarget
from pyvc.sym import *
from pyvc.types import *
from .common import *

import mypy.cache as C
import mypy.errors as E

JSONV = TAny()

FT = {
    ("CacheMeta", "id"): TStr(), ("CacheMeta", "path"): TStr(), ("CacheMeta", "mtime"): TInt(), ("CacheMeta", "size"): TInt(),
    ("CacheMeta", "hash"): TStr(), ("CacheMeta", "dependencies"): TSeq(TStr()), ("CacheMeta", "data_mtime"): TInt(),
    ("CacheMeta", "data_file"): TStr(), ("CacheMeta", "suppressed"): TSeq(TStr()),
    ("CacheMeta", "imports_ignored"): TMap(TInt(), TSeq(TStr())),
    ("CacheMeta", "options"): TLDict(TStr(), TObj(object)), ("CacheMeta", "suppressed_deps_opts"): TBytes(),
    ("CacheMeta", "dep_prios"): TSeq(TInt()), ("CacheMeta", "dep_lines"): TSeq(TInt()), ("CacheMeta", "dep_hashes"): TSeq(TBytes()),
    ("CacheMeta", "interface_hash"): TBytes(), ("CacheMeta", "trans_dep_hash"): TBytes(), ("CacheMeta", "version_id"): TStr(),
    ("CacheMeta", "ignore_all"): TBool(), ("CacheMeta", "plugin_data"): TObj(object),
    ("CacheMetaEx", "dependencies"): TSeq(TStr()), ("CacheMetaEx", "suppressed"): TSeq(TStr()), ("CacheMetaEx", "dep_hashes"): TSeq(TBytes()),
    ("CacheMetaEx", "error_lines"): TLList(TTuple([TOpt(TStr()), TInt(), TInt(), TInt(), TInt(), TStr(), TStr(), TOpt(TStr())])),
}


def json_value_contract_write(I, args, kwargs):
    """write_json_value / read_json_value are a pair proved separately; inside other classes a JSON
    value travels as one opaque token"""
    args[0].put(("json", args[1]))
    return NONE


def json_value_contract_read(I, args, kwargs):
    return args[0].take("json")[1]


JSON_OV = {
    "mypy.cache:write_json_value": json_value_contract_write, "mypy.cache:read_json_value": json_value_contract_read,
    "mypy.cache:write_json": json_value_contract_write, "mypy.cache:read_json": json_value_contract_read,
}


def flags_target(n):
    """write_flags / read_flags round trip for n flags (n = 1 .. 26, the bound the code asserts)"""
    from pyvc.codec import SBuf, prim_overrides
    from pyvc.target import Target
    import pyvc.codec as CD

    ov = prim_overrides()
    ov.pop("mypy.cache:write_flags")
    ov.pop("mypy.cache:read_flags")

    def setup(I):
        flags = [I.make(TBool(), f"flag{i}") for i in range(n)]
        buf = SBuf()
        return {"args": [buf, SList(flags)], "flags": flags, "buf": buf}

    def ens_i(i):
        def ens(I, env, res):
            g = I.ctx.ghost
            if "got" not in g:
                rbuf = SBuf(env["buf"].tokens, reading=True)
                g["got"] = I.call_function(C.read_flags, [rbuf, SInt(n)], {})
                g["rbuf"] = rbuf
            got = g["got"]
            if len(got.items) != n or g["rbuf"].pos != len(g["rbuf"].tokens):
                return z3.BoolVal(False)
            packed = env["buf"].tokens[1][1].t
            normal = z3.Sum([z3.If(f.t, z3.IntVal(2 ** k), z3.IntVal(0)) for k, f in enumerate(env["flags"])])
            if i == -1:
                return packed == normal
            return I.eq(got.items[i], env["flags"][i])

        return ens

    return Target(f"codec.flags.{n}", "mypy.cache:write_flags", setup,
                  ensures=[("packed-is-the-sum-of-the-set-bits", ens_i(-1))] + [(f"flag-{i}-survives", ens_i(i)) for i in range(n)],
                  raises=(), overrides=ov, oblig_timeout_ms=30000)


def targets(tier):
    from pyvc.interp import NONE as _N

    data_file = lambda I, env: [I.getattr(env["self"], "data_file")]
    return [
        CodecTarget("codec.CacheMeta", C.CacheMeta, read_skips_tag=False, field_types=FT, extra_overrides=JSON_OV, read_args=data_file,
                    note="options / plugin_data travel through the write_json(_value) / read_json(_value) pair (opaque token)"),
        CodecTarget("codec.CacheMetaEx", C.CacheMetaEx, read_skips_tag=False, field_types=FT),
    ] + [flags_target(n) for n in ((1, 4, 6, 11, 14, 20, 26) if tier == "quick" else range(1, 27))]
