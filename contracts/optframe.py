"""C09 'every option that can change a diagnostic is part of the cache validity key or applied after
cached results are loaded' as a reads-frame condition on the real source (engine E4).

Obligation, per Options attribute A that is read through an options-like receiver anywhere in the
*analysis phase* of package mypy:      A in OPTIONS_AFFECTING_CACHE  or  A in EXEMPT (reason pinned here)
The analysis phase is everything that is not listed in NOT_ANALYSIS (a new module is analysis by default).
"""
from __future__ import annotations

import collections
import importlib
import os

from frames import optreads
from pyvc.runner import StaticCheck

# (module, qualname prefix) -> phase, for code whose reads cannot end up in cached data / cached
# error tuples or in the decision to reuse them
NOT_ANALYSIS = {
    ("mypy.main", ""): "cli",
    ("mypy.__main__", ""): "cli",
    ("mypy.api", ""): "cli",
    ("mypy.config_parser", ""): "cli",
    ("mypy.options", ""): "options object itself",
    ("mypy.dmypy", ""): "daemon shell",
    ("mypy.dmypy_server", ""): "daemon shell (rebuilds from its own in-memory state, not from the cache key)",
    ("mypy.dmypy_util", ""): "daemon shell",
    ("mypy.dmypy_os", ""): "daemon shell",
    ("mypy.stubgen", ""): "tool",
    ("mypy.stubgenc", ""): "tool",
    ("mypy.stubtest", ""): "tool",
    ("mypy.stubutil", ""): "tool",
    ("mypy.stubdoc", ""): "tool",
    ("mypy.report", ""): "tool (reports)",
    ("mypy.util", ""): "print time (FancyFormatter) / helpers",
    ("mypy.errors", "Errors.format_messages"): "print time: formats cached error tuples",
    ("mypy.errors", "Errors.format_messages_default"): "print time: formats cached error tuples",
    ("mypy.errors", "report_internal_error"): "crash reporting",
    ("mypy.error_formatter", ""): "print time",
}

# attributes read in the analysis phase that are deliberately not in the key
EXEMPT = {
    # --- select or validate the cache itself
    "cache_dir": "selects the cache directory; does not change results",
    "cache_map": "selects cache file names (bazel)",
    "cache_fine_grained": "whether fine-grained deps are written next to the cache; a meta without deps is rejected by find_cache_meta when they are required",
    "sqlite_cache": "selects the store",
    "sqlite_num_shards": "selects the store layout",
    "incremental": "turns the cache off/on",
    "skip_cache_mtime_checks": "test/bazel switch of the validity check itself",
    "skip_version_check": "test switch of the validity check itself",
    "quickstart_file": "alternative validity witness (mtime/size/hash per file)",
    "debug_cache": "adds a readable snapshot; the compared snapshot covers the same values",
    "debug_serialize": "debug re-serialization, no effect on results",
    "use_fine_grained_cache": "daemon start-up from cache",
    "fine_grained_incremental": "daemon mode: state kept in memory, separate cache files (meta.deps)",
    "python_version": "selects a separate cache sub-directory (_cache_dir_prefix)",
    "per_module_options": "only the source of the per-module clones whose values are in the key",
    "config_file": "plugins are covered by the plugin snapshot in every meta",
    # --- module discovery: changes which file a module id maps to; caught by meta.path / source hash
    "mypy_path": "module discovery; a different file for a module id changes meta.path / hash",
    "files": "command-line sources",
    "modules": "command-line sources",
    "packages": "command-line sources",
    "exclude": "module discovery",
    "exclude_gitignore": "module discovery",
    "explicit_package_bases": "module discovery",
    "namespace_packages": "module discovery",
    "scripts_are_modules": "module naming of scripts",
    "package_root": "module discovery (bazel)",
    "no_site_packages": "module discovery",
    "python_executable": "module discovery (site-packages)",
    "fast_module_lookup": "lookup strategy, same result",
    "custom_typeshed_dir": "module discovery of the stdlib stubs",
    "abs_custom_typeshed_dir": "module discovery of the stdlib stubs",
    "use_builtins_fixtures": "test-only stub lookup",
    "no_silence_site_packages": "decides ignore_all per module; recorded in every meta (ignore_all) and compared by validate_meta",
    "shadow_file": "NOT EXAMINED: replaces the text read for a module; assumed to be caught by the source hash",
    # --- diagnostics about the run, not about the program; never cached
    "verbosity": "logging only",
    "dump_build_stats": "statistics", "dump_deps": "debug dump", "dump_graph": "debug dump",
    "dump_inference_stats": "statistics", "timing_stats": "statistics", "line_checking_stats": "statistics",
    "warn_unused_configs": "reported from the configuration, once per run, not cached",
    "non_interactive": "install-types flow",
    "pdb": "crash handling", "raise_exceptions": "crash handling", "show_traceback": "crash handling",
    "test_env": "test switch", "fast_exit": "process exit", "num_workers": "parallelism (C07)",
    "junit_xml": "report", "junit_format": "report", "report_dirs": "reports",
    "output": "error formatter applied when printing cached tuples",
    "error_summary": "summary line at print time", "color_output": "print time",
    "pretty": "print time (format_messages)", "show_column_numbers": "print time", "show_error_end": "print time",
    # --- tooling modes that do not change diagnostics
    "export_types": "daemon/inspection: keeps the type map",
    "export_ref_info": "writes an extra file",
    "preserve_asts": "keeps ASTs in memory",
    "inspections": "daemon inspections",
    "semantic_analysis_only": "stubgen mode, never with a cache",
    "logical_deps": "daemon dependency flavour",
    "transform_source": "test hook",
    "include_docstrings": "stubgen only: keeps docstrings on nodes",
    "disable_expression_cache": "performance switch, same results",
}


def phase_of(module, qual):
    best = None
    for (m, q), why in NOT_ANALYSIS.items():
        if m == module and (q == "" or qual == q or qual.startswith(q + ".") or qual.startswith(q)):
            if best is None or len(q) > len(best[0]):
                best = (q, why)
    return None if best is None else best[1]


def check_reads_frame():
    attrs, reads, files = optreads.scan()
    O = importlib.import_module("mypy.options")
    key = set(O.OPTIONS_AFFECTING_CACHE)
    obs = []
    by_attr = collections.defaultdict(list)
    computed = []
    for a, m, q, line, kind in reads:
        if phase_of(m, q) is not None:
            continue
        if a == "*":
            computed.append(f"{m}:{line} {q}")
            continue
        by_attr[a].append(f"{m}:{line} {q}")
    # vacuity guards
    if files < 100 or len(attrs) < 100 or len(reads) < 300:
        return [{"name": "reads-frame/scan-not-vacuous", "status": "refuted", "where": f"files={files} attrs={len(attrs)} reads={len(reads)}", "confirmed": True}]
    obs.append({"name": "reads-frame/scan-not-vacuous", "status": "discharged", "where": f"{files} files, {len(attrs)} Options attributes, {len(reads)} reads"})
    for a in sorted(by_attr):
        sites = by_attr[a]
        if a in key:
            st, why = "discharged", "in OPTIONS_AFFECTING_CACHE"
        elif a in EXEMPT:
            st, why = "discharged", "exempt: " + EXEMPT[a]
        else:
            st, why = "refuted", "read in the analysis phase, neither in OPTIONS_AFFECTING_CACHE nor exempt"
        obs.append({"name": f"reads-frame/{a}", "status": st, "where": "; ".join(sites[:4]) + (f" (+{len(sites) - 4} more)" if len(sites) > 4 else ""),
                    "detail": {"reason": why, "sites": len(sites)}, "key": a, "confirmed": True})
    for site in computed:
        ok = site.split(" ")[0].split(":")[0] in ("mypy.build",) and False
        obs.append({"name": "reads-frame/computed-attribute-name", "status": "refuted" if not ok else "discharged", "where": site, "key": "computed@" + site.split(":")[0], "confirmed": True,
                    "detail": {"reason": "getattr(options, <computed name>) in the analysis phase reads an unknown attribute"}})
    # stale exemptions are reported (an exemption for an attribute nobody reads any more)
    for a in sorted(EXEMPT):
        if a not in attrs:
            obs.append({"name": f"exempt-list/{a}", "status": "unknown", "where": "EXEMPT names an attribute Options.__init__ no longer assigns"})
    # every per-module option is in the key (clone_for_module results are compared through the key only)
    for a in sorted(O.PER_MODULE_OPTIONS - {"debug_cache"}):
        obs.append({"name": f"per-module-in-key/{a}", "status": "discharged" if a in key else "refuted", "where": "mypy/options.py PER_MODULE_OPTIONS", "key": "per-module:" + a, "confirmed": True})
    return obs


def check_dep_import_options():
    """Options.dep_import_options() is the value by which an importer notices that the options of a
    dependency changed the way its import is handled.  Frame: every Options attribute that
    build.find_module_and_diagnose reads from the DEPENDENCY's options (its `options` parameter) is
    written into that value."""
    import ast
    import os as _os

    repo = _os.environ.get("VERIF_REPO", "/repo")
    ot = ast.parse(open(_os.path.join(repo, "mypy/options.py")).read())
    bt = ast.parse(open(_os.path.join(repo, "mypy/build.py")).read())
    dep = None
    for c in ot.body:
        if isinstance(c, ast.ClassDef) and c.name == "Options":
            dep = next((m for m in c.body if isinstance(m, ast.FunctionDef) and m.name == "dep_import_options"), None)
    fmd = next((f for f in bt.body if isinstance(f, ast.FunctionDef) and f.name == "find_module_and_diagnose"), None)
    if dep is None or fmd is None or "options" not in [a.arg for a in fmd.args.args]:
        return [{"name": "dep-import-options/located", "status": "unknown", "where": "Options.dep_import_options / build.find_module_and_diagnose(options=...) not found"}]
    written = set()
    for n in ast.walk(dep):
        if isinstance(n, ast.Call) and isinstance(n.func, ast.Name) and n.func.id.startswith("write_"):
            for a in n.args[1:]:
                for x in ast.walk(a):
                    if isinstance(x, ast.Attribute) and isinstance(x.value, ast.Name) and x.value.id == "self":
                        written.add(x.attr)
    reads = {}
    for n in ast.walk(fmd):
        if isinstance(n, ast.Attribute) and isinstance(n.value, ast.Name) and n.value.id == "options" and isinstance(n.ctx, ast.Load):
            reads.setdefault(n.attr, n.lineno)
    obs = []
    if not reads or not written:
        return [{"name": "dep-import-options/non-vacuous", "status": "unknown", "where": f"reads={sorted(reads)} written={sorted(written)}"}]
    for attr, line in sorted(reads.items()):
        ok = attr in written
        obs.append({"name": f"dep-import-options/read-is-compared/{attr}", "status": "discharged" if ok else "refuted", "where": f"mypy/build.py:{line} options.{attr}",
                    "detail": "" if ok else f"find_module_and_diagnose reads options.{attr} of the dependency but dep_import_options() does not record it", "key": f"dep-import-option:{attr}", "confirmed": True})
    return obs


def targets(tier):
    return [StaticCheck("options.reads_frame", check_reads_frame, note="E4: syntactic reads of Options attributes in package mypy vs OPTIONS_AFFECTING_CACHE"),
            StaticCheck("options.dep_import_options_frame", check_dep_import_options, note="E4: dependency-option reads of find_module_and_diagnose vs the fields dep_import_options records")]
