"""C07 'the result does not depend on which worker answers first': what the coordinator does with ONE
worker reply (one generic iteration of the loop in BuildManager.wait_for_done_workers).  Each effect is
an accumulation (dict update with disjoint module keys, set add, list extend), so the iteration
contract -- nothing already collected is lost -- is what makes the loop's outcome independent of the
order of `ready`."""
from __future__ import annotations

import z3

from pyvc.interp import NONE, PyExc
from pyvc.sym import *
from pyvc.target import Target
from pyvc.types import *
from .common import *

import mypy.build as B
from mypy.errors import CompileError

RES = TMap(TStr(), TInt())   # module id -> ModuleResult (abstract identity)
SCCS = TMap(TInt(), TInt())  # scc id -> SCC (abstract identity)

FT = {
    ("BuildManager", "free_workers"): TSet(TInt()), ("BuildManager", "scc_by_id"): SCCS,
    ("SccResponseMessage", "is_interface"): TBool(), ("SccResponseMessage", "blocker"): TOpt(TObj(CompileError)),
    ("SccResponseMessage", "result"): TOpt(RES), ("SccResponseMessage", "scc_ids"): TSeq(TInt()),
}


def read_contract(I, args, kwargs):
    m = I.make(TObj(B.SccResponseMessage), "reply")
    I.ctx.ghost["reply"] = m
    return m


OV = {
    "mypy.build:BuildManager.receive_worker_message": returns(TAny(), "buf"),
    "librt.internal:read_tag": returns(TInt(), "tag"), "mypy.build:read_tag": returns(TInt(), "tag"),
    "mypy.build:SccResponseMessage.read": read_contract,
}


def setup_reply(I):
    self = I.make(TObj(B.BuildManager), "self")
    idx = I.make(TInt(), "idx")
    results = I.make(RES, "results")
    done = I.make(TSeq(TInt()), "done_sccs")
    return {"args": [], "locals": {"self": self, "idx": idx, "results": results, "done_sccs": done, "ready": I.make(TSeq(TInt()), "ready")},
            "self": self, "idx": idx, "results": results, "res0": results.t, "done": done, "done0": done.t, "free0": I.getattr(self, "free_workers").t}


def ens_reply(I, env, res):
    """one reply: its module results are ADDED to what was collected so far (nothing collected is lost,
    every new entry is present); the worker becomes free exactly after an implementation reply; the SCCs
    of an interface reply are appended to the done list, others leave it alone"""
    m = I.ctx.ghost.get("reply")
    if m is None:
        return z3.BoolVal(False)
    s_, mk, accs = RES.parts()
    r1, r0 = env["results"].t, env["res0"]
    new = I.getattr(m, "result")
    if new is NONE:
        return z3.BoolVal(False)  # normal exit requires a result (asserted by the code)
    k = z3.Const("module_id", StrS)
    newp, newv = accs[0](new.t), accs[1](new.t)
    merged = z3.ForAll([k], z3.And(z3.Select(accs[0](r1), k) == z3.Or(z3.Select(accs[0](r0), k), z3.Select(newp, k)),
                                   z3.Implies(z3.Select(newp, k), z3.Select(accs[1](r1), k) == z3.Select(newv, k)),
                                   z3.Implies(z3.And(z3.Select(accs[0](r0), k), z3.Not(z3.Select(newp, k))), z3.Select(accs[1](r1), k) == z3.Select(accs[1](r0), k))))
    is_if = I.getattr(m, "is_interface").t
    w = z3.Int("worker")
    free1 = I.getattr(env["self"], "free_workers").t
    free_ok = z3.ForAll([w], z3.Select(free1, w) == z3.Or(z3.Select(env["free0"], w), z3.And(z3.Not(is_if), w == env["idx"].t)))
    d1 = env["__locals"]["done_sccs"].t
    done_ok = z3.If(is_if, z3.And(z3.PrefixOf(env["done0"], d1), z3.Length(d1) == z3.Length(env["done0"]) + z3.Length(I.getattr(m, "scc_ids").t)), d1 == env["done0"])
    return z3.And(merged, free_ok, done_ok)


def exc_reply(I, env, e):
    """a blocker carried by the reply is re-raised as is"""
    m = I.ctx.ghost.get("reply")
    if e.cls in (AssertionError, KeyError):
        return z3.BoolVal(True)  # message shape / own scc table: obligations of the peer and of the caller
    if m is None:
        return z3.BoolVal(False)
    return z3.BoolVal(e.obj is I.getattr(m, "blocker"))


def check_replay_context():
    """worker.load_states replays the import errors the coordinator recorded for a module: each one must
    be added while the Errors object is switched to THAT module (its path, id and per-module options), so
    that its error-code filtering is the module's own.  Decided on the source: inside `if id in
    import_errors:` a call errors.set_file(state.xpath, id, state.options) precedes the replay loop, and the
    replayed errors are added without a per-call file override."""
    import ast
    import os

    repo = os.environ.get("VERIF_REPO", "/repo")
    tree = ast.parse(open(os.path.join(repo, "mypy/build_worker/worker.py")).read())
    fn = next((n for n in tree.body if isinstance(n, ast.FunctionDef) and n.name == "load_states"), None)
    if fn is None:
        return [{"name": "replay-context/located", "status": "unknown", "where": "worker.load_states not found"}]
    outer = [n for n in fn.body if isinstance(n, ast.For) and any(isinstance(c, ast.Call) and isinstance(c.func, ast.Attribute) and c.func.attr == "add_error_info" for c in ast.walk(n))]
    if len(outer) != 1:
        return [{"name": "replay-context/located", "status": "unknown", "where": f"{len(outer)} module loops that replay errors"}]
    loop = outer[0]
    adds = [c for c in ast.walk(loop) if isinstance(c, ast.Call) and isinstance(c.func, ast.Attribute) and c.func.attr == "add_error_info"]
    sets = [c for c in ast.walk(loop) if isinstance(c, ast.Call) and isinstance(c.func, ast.Attribute) and c.func.attr == "set_file"]
    good_sets = [c for c in sets if [ast.unparse(x) for x in c.args] == ["state.xpath", "id", "state.options"]]
    override = any(kw.arg in ("file", "options") for n in adds for kw in n.keywords) or any(len(n.args) > 1 for n in adds)
    ok = bool(good_sets) and all(min(c.lineno for c in good_sets) < n.lineno for n in adds) and not override
    # refuted: errors are added with a per-call override, or no set_file at all precedes them; an unrecognised
    # but present set_file (other arguments) is undecided
    status = "discharged" if ok else "refuted" if (override or not sets) else "unknown"
    return [{"name": "replay-context/errors-replayed-under-their-own-module", "status": status, "where": "mypy/build_worker/worker.py load_states",
             "detail": "" if ok else "replayed import errors are added without switching the Errors object to their module first", "key": "replay-context", "confirmed": True}]


def targets(tier):
    return [Target("coord.wait_for_done_workers.reply", "mypy.build:BuildManager.wait_for_done_workers", setup_reply, loop_body=("for idx in ready", None),
                   ensures=[("reply-is-accumulated-nothing-lost", ens_reply)], exc_ensures=[("blocker-re-raised", exc_reply)], raises=(CompileError, AssertionError, KeyError),
                   overrides=OV, field_types=FT,
                   note="ModuleResult and SCC objects are abstract identities; AssertionError: message shape is the worker's obligation; KeyError: scc ids are the coordinator's own"),
            __import__("pyvc.runner", fromlist=["StaticCheck"]).StaticCheck("worker.replay_context", check_replay_context, note="ordering frame decided on the source")] + iface_targets() + impl_targets() + reload_targets() + budget_targets() + load_states_targets() + serve_targets()


# ---- every module of an SCC goes on from the interface phase to the implementation phase: the list
# process_stale_scc_interface returns is what the worker iterates to check function bodies, so a module
# that is missing from it never has its bodies checked ('a parallel build reports the same diagnostics as
# the sequential build', whether or not a cache record could be written for the module)


class FakeManager2:
    def commit_module(self, meta_file):
        raise NotImplementedError


def setup_iface_entry(I):
    import mypy.build as B
    import mypy.cache as C

    mid = I.make(TStr(), "id")
    meta = I.make(TObj(C.CacheMeta), "meta")
    meta.cands = [C.CacheMeta]
    meta_file = I.make(TStr(), "meta_file")
    has_record = I.ctx.choose(2, "cache-record-written?")
    tup = STuple([meta, meta_file]) if has_record else NONE
    state = I.make(TObj(B.State), "state")
    state.cands = [B.State]
    graph = SDict([(mid, state)])
    scc_result = SList([])
    manager = I.new_object(FakeManager2)
    return {"args": [], "locals": {"id": mid, "meta_tuples": SDict([(mid, tup)]), "graph": graph, "manager": manager, "scc_result": scc_result, "stale": SList([mid])},
            "id": mid, "scc_result": scc_result, "has_record": has_record, "meta_file": meta_file}


def ens_iface_entry(I, env, res):
    items = env["scc_result"].items
    if len(items) != 1 or not isinstance(items[0], STuple) or len(items[0].items) != 3:
        return z3.BoolVal(False)
    first, _, third = items[0].items
    writes = [e for e in I.ctx.events if e[0] in ("write_cache_meta", "commit_module")]
    if env["has_record"]:
        ok = isinstance(third, SStr) and [e[0] for e in writes] == ["write_cache_meta", "commit_module"]
        return z3.And(first.t == env["id"].t, z3.BoolVal(ok), third.t == env["meta_file"].t if isinstance(third, SStr) else z3.BoolVal(False))
    return z3.And(first.t == env["id"].t, z3.BoolVal(third is NONE and not writes))


def iface_targets():
    import mypy.build as B

    ft = {("State", "interface_hash"): TBytes(), ("State", "dependencies"): TSeq(TStr()), ("State", "priorities"): TMap(TStr(), TInt()), ("CacheMeta", "dep_hashes"): TSeq(TBytes())}
    ov = {"mypy.build:write_cache_meta": lambda I, a, k: (I.ctx.events.append(("write_cache_meta",) + tuple(a)), NONE)[1],
          "contracts.coord:FakeManager2.commit_module": lambda I, a, k: (I.ctx.events.append(("commit_module",) + tuple(a[1:])), NONE)[1],
          "mypy.build:ModuleResult": lambda I, a, k: I.new_object(B.ModuleResult)}
    return [Target("coord.process_stale_scc_interface.result_entry", "mypy.build:process_stale_scc_interface", setup_iface_entry,
                   loop_body=("for id in stale", "meta_tuple = meta_tuples[id]"), ensures=[("every-module-of-the-scc-goes-on-to-the-implementation-phase", ens_iface_entry)],
                   raises=(KeyError,), overrides=ov, field_types=ft,
                   note="one generic module of the SCC, with and without a cache record; dependency hashes of the record are not part of this contract (KeyError: that every dependency is in the graph is the caller's invariant)")]


# ---- implementation phase, one generic module: its diagnostics are returned whenever the module is not
# an ignored file -- with or without a cache record -- and cache writes happen only for a module that has one


class FakeErrors2:
    ignored_files: set

    def file_messages(self, path):
        raise NotImplementedError

    def format_messages(self, path, errors, formatter=None):
        raise NotImplementedError


class FakeManager3:
    errors: FakeErrors2
    error_formatter: object

    def commit_module(self, meta_file):
        raise NotImplementedError


def setup_impl_entry(I):
    import mypy.build as B

    mid = I.make(TStr(), "id")
    meta_file = I.make(TOpt(TStr()), "meta_file") if False else None
    has_record = I.ctx.choose(2, "cache-record-written?")
    mf = I.make(TStr(), "meta_file") if has_record else NONE
    state = I.make(TObj(B.State), "state")
    state.cands = [B.State]
    manager = I.new_object(FakeManager3)
    errs = I.new_object(FakeErrors2)
    errs.fields["ignored_files"] = I.make(TSet(TStr()), "ignored_files")
    manager.fields["errors"] = errs
    manager.fields["error_formatter"] = NONE
    scc_result = SDict([])
    return {"args": [], "locals": {"id": mid, "meta_file": mf, "graph": SDict([(mid, state)]), "manager": manager, "scc_result": scc_result, "stale": SList([mid])},
            "id": mid, "state": state, "errs": errs, "scc_result": scc_result, "has_record": has_record}


def ens_impl_entry(I, env, res):
    ignored = z3.Select(I.getattr(env["errs"], "ignored_files").t, I.getattr(env["state"], "xpath").t)
    writes = [e[0] for e in I.ctx.events if e[0] in ("write_cache_meta_ex", "commit_module")]
    ents = env["scc_result"].entries
    returned = len(ents) == 1
    if len(ents) > 1 or (returned and not isinstance(ents[0][0], SStr)):
        return z3.BoolVal(False)
    cache_ok = writes == (["write_cache_meta_ex", "commit_module"] if env["has_record"] else [])
    if returned:
        return z3.And(z3.Not(ignored), ents[0][0].t == env["id"].t, z3.BoolVal(cache_ok))
    return z3.And(ignored, z3.BoolVal(cache_ok))


def impl_targets():
    import mypy.build as B

    ft = {("State", "interface_hash"): TBytes(), ("State", "dependencies"): TSeq(TStr()), ("State", "suppressed"): TSeq(TStr()), ("State", "priorities"): TMap(TStr(), TInt()),
          ("State", "xpath"): TStr()}
    rec_ = lambda tag: (lambda I, a, k: (I.ctx.events.append((tag,) + tuple(a)), NONE)[1])
    ov = {"mypy.build:write_cache_meta_ex": rec_("write_cache_meta_ex"), "contracts.coord:FakeManager3.commit_module": rec_("commit_module"),
          "contracts.coord:FakeErrors2.file_messages": returns(TSeq(TStr()), "errors"), "contracts.coord:FakeErrors2.format_messages": returns(TSeq(TStr()), "formatted"),
          "mypy.build:ModuleResult": lambda I, a, k: I.new_object(B.ModuleResult), "mypy.build:CacheMetaEx": lambda I, a, k: I.new_object(__import__("mypy.cache", fromlist=["x"]).CacheMetaEx)}
    return [Target("coord.process_stale_scc_implementation.result_entry", "mypy.build:process_stale_scc_implementation", setup_impl_entry,
                   loop_body=("for id, meta_file in zip(stale, meta_files)", None), ensures=[("diagnostics-returned-unless-ignored-cache-written-only-with-a-record", ens_impl_entry)],
                   raises=(KeyError,), overrides=ov, field_types=ft, forget_order_facts=True, note="one generic module, with and without a cache record (KeyError: graph closure is the caller's invariant)")]


# ---- a worker learns the interfaces of the modules it depends on only from committed cache records: before
# the modules of a fresh SCC are loaded in a worker, the meta of EVERY one of them is re-read (the copy in the
# broadcast graph may predate what another worker has committed since)


class FakeState4:
    def reload_meta(self):
        raise NotImplementedError


def setup_reload(I):
    import mypy.build as B

    m1, m2 = I.make(TStr(), "mod1"), I.make(TStr(), "mod2")
    I.ctx.assume(m1.t != m2.t)
    s1, s2 = I.new_object(FakeState4), I.new_object(FakeState4)
    # whatever the graph copy already says about the modules must not matter
    for s, tag in ((s1, "1"), (s2, "2")):
        s.fields["interface_hash"] = I.make(TBytes(), "interface_hash" + tag)
        s.fields["meta"] = I.make(TAny(), "meta" + tag)
    prev = I.make(TObj(B.SCC), "prev_scc")
    prev.cands = [B.SCC]
    prev.fields["mod_ids"] = SList([m1, m2])
    prev.fields["id"] = I.make(TInt(), "prev_id")
    prev.fields["deps"] = I.make(TSet(TInt()), "prev_deps")
    ascc = I.make(TObj(B.SCC), "ascc")
    ascc.cands = [B.SCC]
    ascc.fields["deps"] = I.make(TSet(TInt()), "ascc_deps")
    ascc.fields["id"] = I.make(TInt(), "ascc_id")
    return {"args": [], "locals": {"prev_scc": prev, "graph": SDict([(m1, s1), (m2, s2)]), "ascc": ascc, "manager": I.make(TAny(), "manager")}, "s1": s1, "s2": s2}


def ens_reload(I, env, res):
    ev = [e[1] for e in I.ctx.events if e[0] == "reload_meta"]
    return z3.BoolVal(len(ev) == 2 and ev[0] is env["s1"] and ev[1] is env["s2"])


def reload_targets():
    ov = {"contracts.coord:FakeState4.reload_meta": lambda I, a, k: (I.ctx.events.append(("reload_meta", a[0])), NONE)[1]}
    return [Target("coord.maybe_load_deps.reload_meta", "mypy.build:maybe_load_deps", setup_reload, loop_body=("for prev_scc in fresh_sccs_to_load", "graph[mod_id].reload_meta()"),
                   ensures=[("meta-of-every-module-of-a-fresh-scc-is-re-read", ens_reload)], raises=(), overrides=ov, field_types={},
                   bounded="one generic fresh SCC with exactly two modules", note="per fresh SCC; the two-module shape stands for 'every module' (bounded)")]


# ---- the implementation phase of a module starts with a fresh deferral budget: whatever passes the
# interface phase used up must not count against the function bodies (the sequential build gives them the
# full budget)


class FakeChecker5:
    can_skip_diagnostics: bool

    def __init__(self):
        pass


class FakeTree5:
    def local_definitions(self, impl_only=False):
        raise NotImplementedError


class FakeState5:
    def type_checker(self):
        raise NotImplementedError

    def type_check_second_pass(self, todo=None, impl_only=False):
        raise NotImplementedError

    def finish_passes(self):
        raise NotImplementedError

    def detect_possibly_undefined_vars(self):
        raise NotImplementedError


def setup_budget(I):
    mid = I.make(TStr(), "id")
    chk = I.new_object(FakeChecker5)
    chk.fields["can_skip_diagnostics"] = I.make(TBool(), "can_skip_diagnostics")
    chk.fields["pass_num"] = I.make(TInt(), "pass_num_after_interface_phase")
    chk.fields["deferred_nodes"] = SList([])  # empty after the interface phase, as it always is
    opts = I.make(TAny(), "checker_options")
    chk.fields["options"] = I.new_object(FakeChecker5)
    chk.fields["options"].fields["preserve_asts"] = I.make(TBool(), "preserve_asts")
    st = I.new_object(FakeState5)
    tree = I.new_object(FakeTree5)
    st.fields["tree"] = tree
    I.ctx.ghost["checker"] = chk
    return {"args": [], "locals": {"id": mid, "graph": SDict([(mid, st)]), "unfinished_modules": I.make(TSet(TStr()), "unfinished_modules"), "stale": SList([mid])}, "chk": chk}


def second_pass_contract(I, args, kwargs):
    chk = I.ctx.ghost["checker"]
    pn = chk.fields["pass_num"]
    dn = chk.fields["deferred_nodes"]
    I.ctx.events.append(("type_check_second_pass", pn, len(dn.items) if isinstance(dn, SList) else None))
    return I.make(TBool(), "more_passes")


def ens_budget(I, env, res):
    ev = [e for e in I.ctx.events if e[0] == "type_check_second_pass"]
    if not ev:
        return z3.BoolVal(True)  # diagnostics skipped for this module
    e = ev[0]
    return z3.And(e[1].t == 0 if isinstance(e[1], SInt) else z3.BoolVal(False), z3.BoolVal(e[2] == 0))


def budget_targets():
    ov = {"contracts.coord:FakeState5.type_checker": lambda I, a, k: I.ctx.ghost["checker"], "contracts.coord:FakeState5.type_check_second_pass": second_pass_contract,
          "contracts.coord:FakeState5.finish_passes": noop, "contracts.coord:FakeState5.detect_possibly_undefined_vars": noop,
          "mypy.build:DeferredNode": lambda I, a, k: SOpaque("deferred-node"), "contracts.coord:FakeTree5.local_definitions": lambda I, a, k: SList([])}
    loops = {}
    return [Target("coord.process_stale_scc_implementation.fresh_deferral_budget", "mypy.build:process_stale_scc_implementation", setup_budget,
                   loop_body=("for id in stale", "checker = graph[id].type_checker()"), ensures=[("bodies-start-with-pass-zero-and-no-deferred-nodes", ens_budget)],
                   raises=(), overrides=ov, field_types={}, loops=loops, note="one generic module; the checker arrives with an arbitrary pass counter and no deferred nodes")]


# ---- worker.load_states 're-creates the full state of an SCC as it would have been in the coordinator':
# imports_ignored (written to the cache meta) is recomputed from the tree for EVERY module of the batch,
# whether or not the module has import errors to replay


class FakeTree6:
    pass


class FakeErrors6:
    def set_file(self, *a, **k):
        raise NotImplementedError

    def add_error_info(self, info):
        raise NotImplementedError


class FakeManager6:
    errors: FakeErrors6


class FakeState6:
    pass


def setup_load_states_iter(I):
    mid = I.make(TStr(), "id")
    st = I.new_object(FakeState6)
    tree = I.new_object(FakeTree6)
    tree.fields["imports"] = SList([])
    tree.fields["ignored_lines"] = SDict([])
    st.fields["tree"] = tree
    st.fields["imports_ignored"] = SOpaque("what-the-broadcast-graph-said")
    st.fields["xpath"] = I.make(TStr(), "xpath")
    st.fields["options"] = I.make(TAny(), "options")
    has_errors = I.ctx.choose(2, "module-has-import-errors?")
    import_errors = SDict([(mid, SList([]))]) if has_errors else SDict([])
    mgr = I.new_object(FakeManager6)
    mgr.fields["errors"] = I.new_object(FakeErrors6)
    return {"args": [], "locals": {"id": mid, "graph": SDict([(mid, st)]), "import_errors": import_errors, "manager": mgr, "mod_ids": SList([mid])}, "state": st}


def ens_load_states_iter(I, env, res):
    v = env["state"].fields.get("imports_ignored")
    return z3.BoolVal(isinstance(v, SDict))


def load_states_targets():
    return [Target("worker.load_states.imports_ignored_recomputed", "mypy.build_worker.worker:load_states", setup_load_states_iter,
                   loop_body=("for id in mod_ids", "import_lines = {imp.line for imp in state.tree.imports}"), ensures=[("imports-ignored-recomputed-for-every-module", ens_load_states_iter)],
                   raises=(), overrides={"contracts.coord:FakeErrors6.set_file": noop, "contracts.coord:FakeErrors6.add_error_info": noop}, field_types={}, note="one generic module, with and without import errors to replay; the tree has no imports here (only THAT the field is recomputed is decided, not its value)")]


# ---- the worker handles every SCC of a request with the coordinator's own view of which modules came from
# the cache (process_stale_scc_interface verifies the suppressed dependencies of exactly those): the set is
# passed on as received, not narrowed by what happens to be replayed


class FakeGraphData:
    pass


def setup_serve_scc(I):
    gd = I.new_object(FakeGraphData)
    fc = I.make(TSet(TStr()), "from_cache")
    gd.fields["from_cache"] = fc
    msg = I.new_object(FakeGraphData)
    msg.fields["import_errors"] = I.make(TMap(TStr(), TInt()), "import_errors")
    return {"args": [], "locals": {"scc": SOpaque("scc"), "graph": SOpaque("graph"), "manager": I.new_object(FakeManagerC), "graph_data": gd, "scc_message": msg, "results": SList([])},
            "fc": fc}


class FakeManagerC:
    def commit(self):
        raise NotImplementedError


def ens_serve_scc(I, env, res):
    ev = [e for e in I.ctx.events if e[0] == "process_stale_scc_interface"]
    if len(ev) != 1:
        return z3.BoolVal(False)
    fc = ev[0][1].get("from_cache")
    if not isinstance(fc, ZVal):
        return z3.BoolVal(False)
    x = z3.Const("fc_x", StrS)
    return z3.ForAll([x], z3.Select(fc.t, x) == z3.Select(env["fc"].t, x))


def serve_targets():
    def psi(I, a, k):
        kw = dict(k)
        if "from_cache" not in kw and len(a) >= 4:
            kw["from_cache"] = a[3]
        I.ctx.events.append(("process_stale_scc_interface", kw))
        return SList([])

    ov = {"mypy.build:process_stale_scc_interface": psi, "mypy.build_worker.worker:process_stale_scc_interface": psi, "contracts.coord:FakeManagerC.commit": noop}
    return [Target("worker.serve.from_cache_passed_on", "mypy.build_worker.worker:serve", setup_serve_scc, loop_body=("for scc in sccs", "scc_result = process_stale_scc_interface("),
                   ensures=[("interface-phase-gets-the-coordinators-from-cache-set", ens_serve_scc)], raises=(), overrides=ov, field_types={},
                   note="one generic SCC of a request")]
