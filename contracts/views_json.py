"""C11, the JSON half: X.deserialize(json(X.serialize(x))) gives back x, field by field, for the classes
whose binary round trip is under contract -- same views, same transient lists, same class invariants; the
value travels through JSON (tuples come back as lists, object keys are strings).  Nested objects are
modular: a nested serialize() is an opaque JSON value that the matching deserialize / deserialize_type
turns back into that object (each nested class has its own target)."""
from __future__ import annotations

from pyvc.codec_target import CodecTarget

from . import views_types as VT
from . import views_nodes as VN

from pyvc.sym import SObj
from pyvc.types import TAny

JSON_NESTED_READERS = {"mypy.types:deserialize_type"}


def both(f, g):
    if f is None or g is None:
        return f or g

    def h(I, env):
        f(I, env)
        g(I, env)
    return h


def type_targets(tier):
    ts = []
    for cls in VT.classes():
        if "serialize" not in cls.__dict__ or "deserialize" not in cls.__dict__:
            continue
        tr = dict(VT.COMMON_TRANSIENT)
        tr.update(VT.TRANSIENT.get(cls.__name__, {}))
        ts.append(CodecTarget(f"json.types.{cls.__name__}", cls, view=VT.VIEWS.get(cls.__name__), transient=tr, field_types=VT.FT,
                              nested_readers=JSON_NESTED_READERS, requires=VT.REQUIRES.get(cls.__name__), construct=cls.__name__ not in VT.LAZY, field_invs=VT.FIELD_INVS,
                              after_construct=VT.AFTER.get(cls.__name__), init_types=VT.INIT_TYPES, writer="serialize", reader="deserialize", json=True))
    return ts


def var_invariant(I, env):
    """assumed class invariant of a serialized Var (not established here; no counterexample among the 5046
    Vars of a sample build): a Var without a type is an inferred one -- Var.__init__ derives is_inferred
    from `type is None`, and the JSON reader relies on that default"""
    import z3

    v = env["self"]
    ty = I.getattr(v, "type")
    if not isinstance(ty, SObj):  # type is None on this path
        I.ctx.assume(I.truth(I.getattr(v, "is_inferred")))


JSON_REQUIRES = {"Var": var_invariant}


def node_targets(tier):
    ts = []
    for cls in VN.classes():
        if "serialize" not in cls.__dict__ or "deserialize" not in cls.__dict__:
            continue
        opts = VN.SIMPLE[cls.__name__]
        tr = dict(VN.NODE_TRANSIENT)
        tr.update(VN.auto_transient(cls))
        tr.update(VN.TRANSIENT.get(cls.__name__, {}))
        for k in VN.VIEWS.get(cls.__name__, {}):
            tr.pop(k, None)
        ts.append(CodecTarget(f"json.nodes.{cls.__name__}", cls, view=VN.VIEWS.get(cls.__name__), transient=tr, field_types=VN.FT,
                              nested_readers=JSON_NESTED_READERS, construct=opts.get("construct", False), requires=both(opts.get("requires"), JSON_REQUIRES.get(cls.__name__)),
                              writer="serialize", reader="deserialize", json=True))
    return ts


def cache_targets(tier):
    from . import views_cache as VC
    import mypy.cache as C

    data_file = lambda I, env: [I.getattr(env["self"], "data_file")]
    ft = dict(VC.FT)
    # options / plugin_data are JSON values already (what json.loads gave, or what the plugin returned)
    ft[("CacheMeta", "options")] = TAny()
    ft[("CacheMeta", "plugin_data")] = TAny()
    return [
        CodecTarget("json.CacheMeta", C.CacheMeta, read_skips_tag=False, field_types=ft, read_args=data_file, writer="serialize", reader="deserialize", json=True),
        CodecTarget("json.CacheMetaEx", C.CacheMetaEx, read_skips_tag=False, field_types=ft, writer="serialize", reader="deserialize", json=True),
    ]


def stn_json_node_view(I, o):
    """JSON keeps no lazy bytes: the node is decoded at once unless the symbol is a cross reference"""
    import z3
    from pyvc.interp import NONE as _NONE
    from pyvc.sym import SOpt

    cr = VN.stn_cross_ref(I, o)
    node = o.fields.get("_node")
    if isinstance(cr, SOpt):
        if I.ctx.branch(cr.isnone):
            return node
        return _NONE
    return _NONE  # a module: always a reference


def stn_target():
    import mypy.nodes as N
    from pyvc.types import TBool, TInt, TObj, TStr

    ft = dict(VN.FT)
    ft.update({("SymbolTableNode", "kind"): TInt(), ("SymbolTableNode", "module_hidden"): TBool(), ("SymbolTableNode", "module_public"): TBool(),
               ("SymbolTableNode", "implicit"): TBool(), ("SymbolTableNode", "plugin_generated"): TBool(), ("SymbolTableNode", "no_serialize"): TBool(),
               ("MypyFile", "_fullname"): TStr(), ("TypeInfo", "_fullname"): TStr(), ("Decorator", "func"): TObj(N.FuncDef), ("Var", "from_module_getattr"): TBool(),
               ("TypeVarExpr", "_fullname"): TStr(), ("ParamSpecExpr", "_fullname"): TStr(), ("TypeVarTupleExpr", "_fullname"): TStr(), ("TypeVarLikeExpr", "_fullname"): TStr()})
    view = {"cross_ref": VN.stn_cross_ref, "_node": stn_json_node_view}
    tr = {"unfixed": "set by deserialize(): the node still needs fixup", "stored_info": "fixup-local", "no_serialize": "symbols with no_serialize are skipped by SymbolTable.serialize",
          "_node_bytes": "binary format only (lazy decoding)", "_node_tag": "binary format only"}

    def requires(I, env):
        import z3

        VN.stn_requires(I, env)
        k = I.getattr(env["self"], "kind").t
        I.ctx.assume(z3.Or(*[k == v for v in sorted(N.node_kinds)]))  # class invariant: kind is one of LDEF / GDEF / MDEF / UNBOUND_IMPORTED

    return CodecTarget("json.nodes.SymbolTableNode", N.SymbolTableNode, view=view, transient=tr, field_types=ft, nested_readers=JSON_NESTED_READERS,
                       requires=requires, write_args=VN.stn_write_args, read_skips_tag=False, writer="serialize", reader="deserialize", json=True,
                       note="the node is a nested object (modular); the cross-reference decision is the same spec function as for the binary writer")


def targets(tier):
    return type_targets(tier) + node_targets(tier) + cache_targets(tier) + [stn_target()]
