"""C12, method resolution order -- BOUNDED stand-in, never counted as proved.

mypy/mro.py merge() mutates a list of lists in place inside a search loop with for/else: outside what the
VC generator handles for unbounded inputs.  The contract

    linearize_hierarchy(C) == C.__mro__ (by position)   and   MroError is raised  <=>  class creation fails

is therefore checked natively and exhaustively for every class hierarchy up to a stated number of classes
(each class has an ordered tuple of at most 3 distinct bases among the earlier classes; no bases = object).
Nothing is inferred beyond the bound.
"""
from __future__ import annotations

import itertools
import os
import time

from pyvc.runner import StaticCheck


def base_choices(i, max_bases):
    out = [()]
    for k in range(1, min(i, max_bases) + 1):
        out.extend(itertools.permutations(range(i), k))
    return out


def make_infos(h):
    """mypy TypeInfos for the hierarchy h = [bases of class 0, bases of class 1, ...]"""
    from mypy.nodes import Block, ClassDef, SymbolTable, TypeInfo
    from mypy.types import Instance

    obj = TypeInfo(SymbolTable(), ClassDef("object", Block([])), "builtins")
    obj._fullname = "builtins.object"
    obj.mro = [obj]
    infos = []
    for i, bases in enumerate(h):
        ti = TypeInfo(SymbolTable(), ClassDef(f"C{i}", Block([])), "m")
        ti._fullname = f"m.C{i}"
        ti.bases = [Instance(infos[b], []) for b in bases] or [Instance(obj, [])]
        infos.append(ti)
    return obj, infos


def check_one(h):
    """-> None when mypy and CPython agree on every class of h, else a description"""
    from mypy.mro import MroError, linearize_hierarchy

    rt = []
    rt_fail = None
    for i, bases in enumerate(h):
        try:
            rt.append(type(f"C{i}", tuple(rt[b] for b in bases) or (object,), {}))
        except TypeError:
            rt_fail = i
            break
    obj, infos = make_infos(h if rt_fail is None else h[: rt_fail + 1])
    for i, ti in enumerate(infos):
        try:
            lin = linearize_hierarchy(ti)
            ti.mro = lin
        except MroError:
            if rt_fail == i:
                return None  # both reject the same class
            return f"mypy rejects class C{i} of {h}, CPython accepts it"
        if rt_fail == i:
            return f"CPython rejects class C{i} of {h} (inconsistent hierarchy), mypy computes {[x.name for x in lin]}"
        want = [c.__name__ for c in rt[i].__mro__]
        got = [x.name for x in lin]
        if want != got:
            return f"class C{i} of {h}: __mro__ is {want}, mypy computes {got}"
    return None


def _chunk(args):
    n, max_bases, first = args
    bad = []
    cnt = 0
    rest = [base_choices(i, max_bases) for i in range(2, n)]
    for tail in itertools.product(*rest):
        h = [(), first] + list(tail)
        cnt += 1
        r = check_one(h[:n])
        if r is not None:
            bad.append(r)
            if len(bad) >= 3:
                break
    return cnt, bad


def run_bounded(n, max_bases=3):
    from concurrent.futures import ProcessPoolExecutor

    t0 = time.time()
    firsts = base_choices(1, max_bases)
    # split the space on the bases of classes 1 and 2 for parallelism
    jobs = [(n, max_bases, f) for f in firsts]
    total, bad = 0, []
    if n >= 5:
        with ProcessPoolExecutor(min(16, os.cpu_count() or 4)) as ex:
            sub = []
            for f in firsts:
                for c2 in base_choices(2, max_bases):
                    sub.append((n, max_bases, f, c2))
            for cnt, b in ex.map(_chunk2, sub):
                total += cnt
                bad.extend(b)
    else:
        for j in jobs:
            cnt, b = _chunk(j)
            total += cnt
            bad.extend(b)
    return total, bad, time.time() - t0


def _chunk2(args):
    n, max_bases, first, second = args
    bad, cnt = [], 0
    rest = [base_choices(i, max_bases) for i in range(3, n)]
    for tail in itertools.product(*rest):
        h = [(), first, second] + list(tail)
        cnt += 1
        r = check_one(h[:n])
        if r is not None:
            bad.append(r)
            if len(bad) >= 3:
                break
    return cnt, bad


def mro_check(n):
    def run():
        total, bad, secs = run_bounded(n)
        obs = [{"name": f"mro/equals-runtime-mro-and-rejects-iff-class-creation-fails/up-to-{n}-classes", "status": "refuted" if bad else "discharged", "solver": "exhaustive-native",
                "kind": "bounded", "secs": round(secs, 2), "where": f"mypy/mro.py linearize_hierarchy, merge: {total} hierarchies of {n} classes (<= 3 ordered bases each)",
                "detail": "; ".join(bad[:3]), "key": "mro-bounded", "confirmed": True}]
        if total == 0:
            obs[0]["status"] = "unknown"
        return obs
    return run


def targets(tier):
    n = 6
    t = StaticCheck(f"mro.bounded.{n}", mro_check(n), note=f"BOUNDED stand-in: exhaustive native comparison with CPython for all hierarchies of {n} classes")
    t.bounded = f"all class hierarchies of {n} classes, each class with an ordered tuple of at most 3 distinct earlier classes as bases"
    return [t]
